"""C10 - routing entries installed in a chip's router are the entries given.

R1 tree -> table: roles of the entry fields, multi-source error condition,
   arrival directions accumulated, traversal visits every child
R2 load order and failure atomicity
R3 record layout: writer = reader, route-bit encoding, command words
R4 read-back
"""
import ast

from ..core import AnalysisError, finish, unparse
from ..constfold import Folder
from ..bits import provenance, parse_format
from ..dataflow import Flow, chain, call_name
from ..absint import Interp
from ..poly import le, lt, eq
from ..util import calls_in, qual, formals, returns_of, raises_of, \
    raise_name, has_fact, bind
from ..terms import Terms, V, match, show, lookup, presence, strip_new, \
    alternatives, subterms, owner_terms, is_none, reify, mk_cmp, \
    bit_test, plain, stores

MC = "rig.machine_control.machine_controller"
CTRL = MC + ":MachineController"
UT = "rig.routing_table.utils"
RT = "rig.place_and_route.routing_tree"
CONSTS = "rig.machine_control.consts"

EXPLANATION = (
    "R1: in routing_tree_to_tables the entry is built as RoutingTableEntry("
    "outs, key, mask, ins); the multi-source error is raised exactly under "
    "'same (key, mask) present and different outs'; on the merge path the "
    "arrival direction is added on every path; traverse adds every non-None "
    "child direction, enqueues every sub-tree with its own direction and "
    "never leaves the child loop early. R2: dominance over "
    "load_routing_table_entries: allocate -> (base == 0 => raise before any "
    "write/load) -> write staging buffer -> router load. R3: the folded "
    "record format is 16 bytes = the stride and buffer factor; writer slots "
    "(index, 0, route, key, mask) and reader slots (_, free, route, key, "
    "mask) coincide; the route word is OR of 1 << r and the reader tests "
    "bit r of the unmodified word for all 24 members of Routes; the "
    "command words place count/app id/opcode at bits 16/8/0. R4: the "
    "read-back size and slicing use the same format size.")
NOT_DECIDED = ["SC&MP's behaviour given the commands",
               "that `count` fits 16 bits / app_id 8 bits (documented field "
               "widths are assumed)"]


def _loop_parts(cfg, loop):
    head = cfg.loop_head[id(loop)]
    body = [n for n in head.succ if n.kind == "join" and
            n.label == "forbody"][0]
    return head, body, cfg.loop_exit[id(loop)]


def _bind_nt(program, module, name, call):
    """Field name -> argument expression of a namedtuple construction."""
    tree = program.module(module).tree
    fields = None
    for st in ast.walk(tree):
        if isinstance(st, ast.Assign) and len(st.targets) == 1 and \
                isinstance(st.targets[0], ast.Name) and \
                st.targets[0].id == name and isinstance(st.value, ast.Call) \
                and call_name(st.value)[0] == "namedtuple":
            spec = st.value.args[1]
            if isinstance(spec, ast.Constant):
                fields = spec.value.replace(",", " ").split()
            elif isinstance(spec, (ast.List, ast.Tuple)):
                fields = [e.value for e in spec.elts]
    if fields is None:
        raise AnalysisError("namedtuple %s not found in %s" % (name, module))
    out = {}
    for f, a in zip(fields, call.args):
        out[f] = a
    for k in call.keywords:
        out[k.arg] = k.value
    return out


def r1_tables(program, rep):
    """Which value reaches which field is decided on canonical value terms
    (terms.py): the rule does not depend on the names of locals, on
    temporaries, on how tuples are unpacked or on which spelling of a dict
    lookup / membership test is used."""
    fn = program.get(UT + ":routing_tree_to_tables")
    inst = qual(fn)
    T = Terms(fn)
    cfg = T.cfg
    trav = calls_in(fn, "traverse")
    if len(trav) != 1:
        raise AnalysisError("routing_tree_to_tables: expected one traverse()")
    loop = trav[0]._parent
    while loop is not None and not (isinstance(loop, ast.For) and
                                    _inside(trav[0], loop.iter)
                                    or loop.iter is trav[0]
                                    if isinstance(loop, ast.For) else False):
        loop = loop._parent
    if loop is None:
        raise AnalysisError("traverse() is not iterated by a for loop")
    head, body, _ = _loop_parts(cfg, loop)
    E = T._elem(T.term(loop.iter, head))
    DIR, CHIP, OUTS = [T._comp(E, i, 3) for i in range(3)]
    tree_t = T.term(trav[0].func.value, head)
    # the tree belongs to a net whose (key, mask) is net_keys[net]
    m = match(("comp", ("elem", ("items", ("param", V("routes")))), 1),
              tree_t)
    if m is None:
        raise AnalysisError("trees are not the values of the routes "
                            "argument: %s" % show(tree_t))
    NET = ("comp", ("elem", ("items", ("param", m["routes"]))), 0)
    keyparam = [p for p in formals(fn) if p != m["routes"]]
    if len(keyparam) != 1:
        raise AnalysisError("routing_tree_to_tables signature changed")
    K = ("item", ("param", keyparam[0]), NET)

    def same_entry(D, k, what):
        lk = lookup(D) if D is not None else None
        return lk is not None and strip_new(lk[0])[0] == "call" and \
            lk[1] == CHIP and k == K

    def arrival(expr, node):
        """The value is None for the root and the opposite of the departure
        direction otherwise."""
        tn = T.under((is_none(DIR), True))
        tp = T.under((is_none(DIR), False))
        vn = alternatives(tn.term(expr, node))
        vp = alternatives(tp.term(expr, node))
        return all(v in (("const", None), DIR) for v in vn) and \
            vp == [("attr", DIR, "opposite")]

    # -- what the per-chip records are filed under ----------------------------------
    # two nets with the same key but different masks are different entries:
    # a record filed under the key alone merges them (or reports a bogus
    # multi-source conflict)
    K0 = T._comp(K, 0, 2)
    for n_, st_, base_, key_, val_ in stores(T):
        lkb = lookup(base_)
        if lkb is None or lkb[1] != CHIP:
            continue
        kk = plain(key_)
        if kk == plain(K0):
            rep.bad("C10-R1", inst, "records keyed by the key alone",
                    "the per-chip record of a net is filed under its key "
                    "without the mask: nets with equal keys and different "
                    "masks share one record - one of them gets no entry on "
                    "the chip (or a multi-source error is raised for routes "
                    "that do not conflict)", st_)
    # -- creation of a new (key, mask) on a chip ---------------------------------
    # the record type: the namedtuple with fields (ins, outs) made in this
    # function, whatever it is called
    NT = "InOutPair"
    for st_ in ast.walk(fn):
        if isinstance(st_, ast.Assign) and len(st_.targets) == 1 and \
                isinstance(st_.targets[0], ast.Name) and \
                isinstance(st_.value, ast.Call) and \
                call_name(st_.value)[0] == "namedtuple" and \
                len(st_.value.args) == 2:
            spec_ = st_.value.args[1]
            flds_ = spec_.value.replace(",", " ").split() if isinstance(
                spec_, ast.Constant) and isinstance(spec_.value, str) else [
                e_.value for e_ in getattr(spec_, "elts", [])
                if isinstance(e_, ast.Constant)]
            if sorted(flds_) == ["ins", "outs"]:
                NT = st_.targets[0].id
    pairs = calls_in(fn, NT)
    if not pairs or not calls_in(fn, "RoutingTableEntry") or not any(
            raise_name(r) == "MultisourceRouteError" for r in raises_of(fn)):
        raise AnalysisError("routing_tree_to_tables: the per-chip records "
                            "(InOutPair), the multi-source error or the "
                            "table entries are not built in this function "
                            "in the form analysed")
    for pc_ in pairs:
        par_ = getattr(pc_, "_parent", None)
        if isinstance(par_, ast.Call) and isinstance(
                par_.func, ast.Attribute) and par_.func.attr == "setdefault":
            raise AnalysisError("routing_tree_to_tables: the per-chip record "
                                "is created as the default of setdefault() "
                                "and merged on one path; that form is not "
                                "analysed")
    okp = len(pairs) == 1
    create_node = None
    arr_expr = None
    if okp:
        pc = pairs[0]
        create_node = cfg.node_containing(pc)
        f = _bind_nt(program, UT, NT, pc)
        st = pc._parent
        okp = isinstance(st, ast.Assign) and len(st.targets) == 1 and \
            isinstance(st.targets[0], ast.Subscript) and st.value is pc
        if okp:
            tgt = T.term(st.targets[0], create_node)
            lk = lookup(tgt)
            okp = lk is not None and same_entry(lk[0], lk[1], "store")
        if okp:
            outs = strip_new(T.term(f["outs"], create_node))
            okp = outs == OUTS or match(
                ("call", ("global", "set"), (OUTS,), ()), outs) is not None
        if okp:
            ins = f["ins"]
            if isinstance(ins, ast.Call) and call_name(ins)[0] == "set" and \
                    len(ins.args) == 1 and not ins.keywords and \
                    isinstance(ins.args[0], (ast.List, ast.Tuple, ast.Set)) \
                    and len(ins.args[0].elts) == 1:
                # set([x]) is {x}
                ins = ast.copy_location(ast.Set(elts=ins.args[0].elts), ins)
            okp = isinstance(ins, ast.Set) and len(ins.elts) == 1 and \
                arrival(ins.elts[0], create_node)
            arr_expr = ins.elts[0] if okp else None
        if okp:
            pres = [presence(t, p) for t, p in T.all_facts(create_node)]
            okp = any(x is not None and same_entry(x[0], x[1], "test") and
                      x[2] is False for x in pres)
    rep.check(okp, "C10-R1", inst, "a (key, mask) not yet present on the "
              "chip is stored with ins = {arrival direction} (None for the "
              "root, else the opposite of the departure direction) and outs "
              "= the node's out directions",
              construct="new pair", node=fn,
              fail="the record created for a new (key, mask) on a chip is "
                   "not InOutPair(ins={arrival direction}, outs=out "
                   "directions) stored under route_sets[chip][(key, mask)] "
                   "when that key is absent")
    # -- multi-source error -------------------------------------------------------
    okm = False
    raise_node = None
    for r in raises_of(fn):
        if raise_name(r) != "MultisourceRouteError":
            continue
        raise_node = cfg.node_of(r)
        facts = T.all_facts(raise_node)
        present = any(x is not None and same_entry(x[0], x[1], "test") and
                      x[2] is True for x in
                      [presence(t, p) for t, p in facts])
        differ = False
        for t, p in facts:
            if t[0] == "cmp" and t[1] == "Eq" and p is False:
                for a_, b_ in ((t[2], t[3]), (t[3], t[2])):
                    if b_ == OUTS and a_[0] == "attr" and a_[2] == "outs":
                        lk = lookup(a_[1])
                        differ = differ or (lk is not None and
                                            same_entry(lk[0], lk[1], "cmp"))
        exc = program.get("rig.routing_table.exceptions:"
                          "MultisourceRouteError.__init__")
        bound = bind(r.exc, exc, True)
        argsok = T.term(bound["key"], raise_node) == T._comp(K, 0, 2) and \
            T.term(bound["mask"], raise_node) == T._comp(K, 1, 2) and \
            T.term(bound["coordinate"], raise_node) == CHIP
        okm = present and differ and argsok
    rep.check(okm, "C10-R1", inst, "MultisourceRouteError(key, mask, chip) "
              "is raised exactly when the same key/mask already has "
              "different out directions on the chip",
              construct="multisource condition", node=fn)
    # -- merge --------------------------------------------------------------------
    oka = False
    add_node = None
    from ..util import single_adds
    for recv_e, elem_e, c in single_adds(fn):
        cn_ = cfg.node_containing(c) if isinstance(c, ast.Call) else \
            cfg.node_of(c)
        recv = T.term(recv_e, cn_)
        if recv[0] == "attr" and recv[2] == "ins" and lookup(recv[1]) and \
                same_entry(*lookup(recv[1]), what="add"):
            add_node = cn_
            oka = arrival(elem_e, add_node)
    if oka and create_node is not None and raise_node is not None:
        # every iteration creates, merges or raises
        done = (create_node, add_node, raise_node)
        oka = cfg.must_pass(body, lambda n: n in done,
                            targets=[head, cfg.exit])
    rep.check(oka, "C10-R1", inst, "when a (key, mask) is already present "
              "with the same outs, the arrival direction (None included) is "
              "added to its sources on every path",
              construct="arrival direction added", node=fn,
              fail="the arrival direction is not always added to the "
                   "existing entry's sources (e.g. a locally sourced tree "
                   "loses its None source): the entry can be mistaken for a "
                   "straight-through one and default-routed away")
    # -- table construction -------------------------------------------------------
    rte = calls_in(fn, "RoutingTableEntry")
    ok = len(rte) == 1
    if ok:
        n = cfg.node_containing(rte[0])
        cls = program.get("rig.routing_table.entries:RoutingTableEntry")
        fields = [a.arg for a in cls.args.args if a.arg not in ("cls",
                                                                 "self")] \
            if isinstance(cls, ast.FunctionDef) else None
        if fields is None:
            fields = _nt_fields(program)
        f = dict(zip(fields, rte[0].args))
        for k in rte[0].keywords:
            f[k.arg] = k.value
        from .C04 import _comp_env
        env_ = _comp_env(T, rte[0])     # (the entry may be built inside a
        #                                 comprehension)
        route = T.term(f["route"], n, env_)
        srcs = T.term(f["sources"], n, env_) if "sources" in f else None
        key, mask = T.term(f["key"], n, env_), T.term(f["mask"], n, env_)
        ok = route[0] == "attr" and route[2] == "outs" and srcs is not None \
            and srcs == ("attr", route[1], "ins")
        if ok:
            Vv = route[1]
            m1 = match(("comp", ("elem", ("items", V("D"))), 1), Vv)
            lk = lookup(Vv)
            if m1 is not None:
                Kt = ("comp", ("elem", ("items", m1["D"])), 0)
                D = m1["D"]
            elif lk is not None:
                D, Kt = lk
            else:
                D = Kt = None
            ok = Kt is not None and key == T._comp(Kt, 0, 2) and \
                mask == T._comp(Kt, 1, 2)
            if ok:
                # ... of the chip whose table receives the entry
                m2 = match(("comp", ("elem", ("items", V("RS"))), 1), D)
                lk2 = lookup(D)
                if m2 is not None:
                    chip = ("comp", ("elem", ("items", m2["RS"])), 0)
                elif lk2 is not None:
                    chip = lk2[1]
                else:
                    chip = None
                ok = False
                matched_add = False
                for recv_e, elem_e, c in single_adds(fn):
                    cn_ = cfg.node_containing(c) if isinstance(
                        c, ast.Call) else cfg.node_of(c)
                    if strip_new(T.term(elem_e, cn_, _comp_env(
                            T, elem_e))) != strip_new(T.term(rte[0], n,
                                                             env_)):
                        continue
                    matched_add = True
                    lk3 = lookup(T.term(recv_e, cn_))
                    ok = lk3 is not None and lk3[1] == chip and \
                        chip is not None
                if not matched_add:
                    # (e.g. tables[chip] = [<entry> for ...]): where the
                    # entry goes is read from the store instead
                    for n_, st_, base_, key_, val_ in stores(T):
                        pv_ = strip_new(val_)
                        if pv_[0] == "listcomp" and strip_new(pv_[1]) == \
                                strip_new(T.term(rte[0], n, env_)):
                            matched_add = True
                            ok = key_ == chip and chip is not None
                if not matched_add:
                    raise AnalysisError("routing_tree_to_tables: where the "
                                        "entries built are put was not "
                                        "found in the form analysed")
    rep.check(ok, "C10-R1", inst, "entry = RoutingTableEntry(route=outs, "
              "key, mask, sources=ins) for each (key, mask) of the chip",
              construct="entry roles", node=fn,
              fail="the table entry is not built as (outs, key, mask, ins) "
                   "of one (key, mask) record of the chip whose table "
                   "receives it: route and sources (or key and mask) are "
                   "exchanged")
    # -- the traversal --------------------------------------------------------------
    _traverse(program, rep)
    rep.floor("C10-R1", 8)


def _nt_fields(program):
    tree = program.module("rig.routing_table.entries").tree
    for st in ast.walk(tree):
        if isinstance(st, ast.ClassDef) and st.name == "RoutingTableEntry":
            for b_ in st.bases:
                if isinstance(b_, ast.Call) and \
                        call_name(b_)[0] == "namedtuple":
                    spec = b_.args[1]
                    if isinstance(spec, ast.Constant):
                        return spec.value.replace(",", " ").split()
                    return [e.value for e in spec.elts]
    raise AnalysisError("RoutingTableEntry fields not found")


def _traverse(program, rep):
    tr = program.get(RT + ":RoutingTree.traverse")
    inst = qual(tr)
    T = Terms(tr)
    loops = [n for n in ast.walk(tr) if isinstance(n, ast.For) and
             isinstance(n.iter, ast.Attribute) and n.iter.attr == "children"]
    if len(loops) != 1:
        raise AnalysisError("traverse: expected one loop over .children")
    lp = loops[0]
    TL = owner_terms(T, lp)
    head, body, after = _loop_parts(TL.cfg, lp)
    it = TL.term(lp.iter, head)
    NODE = it[1]
    EL = ("elem", it)
    CD, CH = ("comp", EL, 0), ("comp", EL, 1)
    ok = not any(isinstance(n, (ast.Break, ast.Return))
                 for n in ast.walk(lp))
    rep.check(ok, "C10-R1", inst, "every child of a node is examined "
              "(the child loop is never left early)",
              construct="traverse child loop", node=tr,
              fail="the loop over a node's children can stop early: later "
                   "children's directions are missing from the entry and "
                   "their sub-trees are never visited")
    # out directions: the set yielded holds d for every child (d, _) with
    # d is not None, and nothing else -- whether it is filled by the child
    # loop or built by a comprehension
    isnone = is_none(CD)
    ys = [n for n in ast.walk(tr) if isinstance(n, ast.Yield)]
    if len(ys) != 1 or _inside(ys[0], lp):
        raise AnalysisError("traverse: expected one yield per node visited")
    yn = T.cfg.node_containing(ys[0])
    yt = T.term(ys[0].value, yn)
    if not (yt[0] == "tuple" and len(yt) == 4):
        raise AnalysisError("traverse: the value yielded is not a triple")
    SET = yt[3]
    built = T.filtered(SET)
    if not built:
        raise AnalysisError("traverse: how the out directions are collected "
                            "was not recognised")
    oka = len(built) == 1
    if oka:
        bit_, bel, bconds = built[0]
        bcd = ("comp", ("elem", bit_), 0)
        oka = plain(bit_) == plain(it) and plain(bel) == plain(bcd) and \
            [(plain(c), p_) for c, p_ in bconds] == [
                (plain(is_none(bcd)), False)]
    rep.check(oka, "C10-R1", inst, "every child direction that is not None "
              "(and only those) joins the node's out directions",
              construct="traverse out directions", node=tr)
    # sub-trees are queued with their direction
    isTree = ("call", ("global", "isinstance"),
              (CH, ("global", "RoutingTree")), ())
    enq = [c for c in calls_in(lp, "append") if len(c.args) == 1 and
           TL.term(c.args[0]) in (EL, ("tuple", CD, CH))]
    oke = len(enq) == 1
    Q = None
    if oke:
        en = TL.cfg.node_containing(enq[0])
        Q = TL.term(enq[0].func.value, en)
        sub = TL.under((isTree, True))
        leaf = TL.under((isTree, False))
        oke = sub.must_pass(body, lambda n: n is en,
                            targets=[head, TL.cfg.exit]) and \
            not leaf.live(en)
    rep.check(oke, "C10-R1", inst, "every child that is a sub-tree (and "
              "nothing else) is queued with the direction leading to it",
              construct="traverse enqueue", node=tr)
    # the yield: (direction, chip, out set) of the node taken from the queue
    oky = Q is not None
    if oky:
        d, chip, outs = yt[1:]
        pop = [t for t in subterms(NODE)
               if t[0] in ("call", "callv") and t[1][0] == "attr" and
               t[1][2] in ("popleft", "pop") and t[1][1] == Q]
        if not pop:
            raise AnalysisError("RoutingTree.traverse: nodes are not "
                                "taken from the queue by pop/popleft; "
                                "that traversal form is not analysed")
        oky = bool(pop) and NODE == ("comp", pop[0], 1) and \
            d == ("comp", pop[0], 0) and \
            chip == ("attr", NODE, "chip")
    rep.check(oky, "C10-R1", inst, "each node taken from the queue yields "
              "(arrival direction, its chip, the out directions collected "
              "from its children)", construct="traverse yield", node=tr)


def _inside(node, anc):
    n = node
    while n is not None:
        if n is anc:
            return True
        n = getattr(n, "_parent", None)
    return False


def _P(name):
    return ("param", name)


def _argterms(T, call, callee, skip_self=True):
    b = bind(call, callee, skip_self)
    n = T.cfg.node_containing(call)
    return {k: T.term(v, n) for k, v in b.items()
            if isinstance(v, ast.AST)}


def _send_terms(program, T, call):
    """Argument terms of ``self._send_scp(x, y, p, cmd, arg1, ...)`` under the
    names of SCPConnection.send_scp's formals (which receives them after the
    buffer size)."""
    conn = program.get("rig.machine_control.scp_connection:"
                       "SCPConnection.send_scp")
    names = formals(conn)[2:]          # self, buffer_size, x, y, p, cmd ...
    n = T.cfg.node_containing(call)
    out = {}
    for nm, a in zip(names, call.args):
        if isinstance(a, ast.Starred):
            break
        out[nm] = T.term(a, n)
    for k in call.keywords:
        if k.arg:
            out[k.arg] = T.term(k.value, n)
    return out


def _wide(piece, bits):
    """The field keeps at least ``bits`` low bits of its source."""
    return piece.n is None or piece.n >= bits


def _layout(folder, env, fn, term):
    return provenance(reify(term), lambda e: _fold_int(folder, env, fn, e))


def r2_order(program, folder, rep):
    fn = program.get(CTRL + ".load_routing_table_entries")
    inst = qual(fn)
    T = Terms(fn)
    cfg = T.cfg
    env = folder.module_env(MC)
    ps = formals(fn)          # self, entries, x, y, app_id
    alloc = load = None
    for c in calls_in(fn, "_send_scp"):
        cmd = _send_terms(program, T, c).get("cmd", ("?",))
        if cmd[0] == "attr" and cmd[2] == "alloc_free":
            alloc = c
        if cmd[0] == "attr" and cmd[2] == "router":
            load = c
    writes = [c for c in calls_in(fn, "write")
              if chain(c.func.value) == "self"]
    if alloc is None or load is None or len(writes) != 1:
        raise AnalysisError("load_routing_table_entries: commands not found")
    A, L = _send_terms(program, T, alloc), _send_terms(program, T, load)
    W = _argterms(T, writes[0], program.get(CTRL + ".write"))
    na, nl, nw = [cfg.node_containing(c) for c in (alloc, load, writes[0])]
    rep.check(cfg.dominates(na, nw) and cfg.dominates(nw, nl) and
              not cfg.reaches(nl, nw), "C10-R2", inst,
              "allocate, then write the staging buffer, then issue the "
              "router load", construct="load order", node=fn)
    BASE = ("attr", T.term(alloc, na), "arg1")
    rs = [r for r in raises_of(fn) if raise_name(r) == "SpiNNakerRouterError"]
    ok = False
    zero = mk_cmp("Eq", BASE, ("const", 0))
    if len(rs) == 1:
        rn = cfg.node_of(rs[0])
        ok = (zero, True) in T.all_facts(rn) and cfg.dominates(na, rn)
        gates = [n for n in cfg.nodes if n.kind == "assume" and
                 T.cond(n.ast, n, n.polarity) == (zero, False)]
        ok = ok and any(cfg.dominates(g, nw) and cfg.dominates(g, nl)
                        for g in gates)
    rep.check(ok, "C10-R2", inst, "a zero base (arg1 of the allocation "
              "reply: allocation failed) raises SpiNNakerRouterError before "
              "anything is written or loaded",
              construct="allocation failure", node=fn)
    rep.check(L.get("arg3") == BASE, "C10-R2", inst, "the base given to the "
              "router load is arg1 of the allocation reply",
              construct="base from reply", node=fn)
    # command words
    COUNT = ("call", ("global", "len"), (_P(ps[1]),), ())
    lay = _layout(folder, env, fn, A["arg1"])
    ok1 = [(p.src, p.dst_lo, p.src_lo) for p in lay.pieces] == [
        (ps[4], 8, 0)] and _wide(lay.pieces[0], 8) and \
        lay.const == folder.name(CONSTS, "AllocOperations").members[
            "alloc_rtr"].value and A.get("arg2") == COUNT
    rep.check(ok1, "C10-R3", inst, "allocation command: app_id << 8 | "
              "alloc_rtr, with the number of entries",
              construct="alloc word %r" % (lay,), node=alloc)
    lay = _layout(folder, env, fn, L["arg1"])
    got = sorted((p.src, p.dst_lo, p.src_lo) for p in lay.pieces)
    width = {16: 16, 8: 8}
    ok2 = got == sorted([(unparse(reify(COUNT)), 16, 0), (ps[4], 8, 0)]) \
        and all(_wide(p, width[p.dst_lo]) for p in lay.pieces) and \
        lay.const == folder.name(CONSTS, "RouterOperations").members[
            "load"].value
    rep.check(ok2, "C10-R3", inst, "load command word: count << 16 | app_id "
              "<< 8 | load", construct="load word %r" % (lay,), node=load)
    rsf = program.get(CTRL + ".read_struct_field")
    buf = L.get("arg2")
    ok3 = buf is not None and buf == W.get("address")
    if ok3:
        bc = [c for c in calls_in(fn, "read_struct_field")
              if T.term(c) == buf]
        ok3 = len(bc) == 1
        if ok3:
            B = _argterms(T, bc[0], rsf)
            ok3 = B.get("struct_name") == ("const", "sv") and \
                B.get("field_name") == ("const", "sdram_sys") and \
                B.get("x") == _P(ps[2]) and B.get("y") == _P(ps[3])
    rep.check(ok3, "C10-R3", inst, "arg2 = the staging buffer written "
              "(sv.sdram_sys of that chip), arg3 = the allocated base",
              construct="load arguments", node=load)
    for c, Bd in ((alloc, A), (load, L)):
        rep.check(Bd.get("x") == _P(ps[2]) and Bd.get("y") == _P(ps[3]) and
                  Bd.get("p") == ("const", 0),
                  "C10-R2", inst, "router commands go to core 0 of the chip "
                  "named by the caller", construct="router command target",
                  node=c)
    rep.check(W.get("x") == _P(ps[2]) and W.get("y") == _P(ps[3]),
              "C10-R2", inst, "the staging buffer is written on that chip",
              construct="staging write target", node=writes[0])
    lt = program.get(CTRL + ".load_routing_tables")
    TL = Terms(lt)
    lc = calls_in(lt, "load_routing_table_entries")
    okl = len(lc) == 1
    if okl:
        B = _argterms(TL, lc[0], fn)
        lps = formals(lt)          # self, routing_tables, app_id
        E = ("elem", ("items", _P(lps[1])))
        okl = B.get("entries") == ("comp", E, 1) and \
            B.get("x") == ("comp", ("comp", E, 0), 0) and \
            B.get("y") == ("comp", ("comp", E, 0), 1) and \
            B.get("app_id") == _P(lps[2])
    rep.check(okl, "C10-R2", qual(lt), "each chip's table is loaded on that "
              "chip under the caller's app id", construct="per-chip load",
              node=lt)
    return writes[0]


def _fold_int(folder, env, fn, e):
    try:
        v = folder.eval(e, env, fn._module)
    except AnalysisError:
        return None
    if hasattr(v, "cls") and v.cls.is_int:
        v = v.value
    if isinstance(v, bool) or not isinstance(v, int):
        return None
    return v


def _fold_any(folder, env, fn, e):
    try:
        return folder.eval(e, env, fn._module)
    except AnalysisError:
        return None


def r3_layout(program, folder, rep, write_call):
    fn = program.get(CTRL + ".load_routing_table_entries")
    inst = qual(fn)
    T = Terms(fn)
    env = folder.module_env(MC)
    ps = formals(fn)
    fmt = folder.name(CONSTS, "RTE_PACK_STRING")
    endian, slots, size = parse_format(fmt)
    packs = calls_in(fn, "pack_into")
    if len(packs) != 1:
        raise AnalysisError("load_routing_table_entries: pack_into")
    pk = packs[0]
    a = pk.args
    node = T.cfg.node_containing(pk)
    okf = _fold_any(folder, env, fn, reify(T.term(a[0], node))) == fmt
    ENTRIES = _P(ps[1])
    vals = [T.term(v, node) for v in a[3:]]
    ENTRY = ("elem", ENTRIES)
    lp = pk._parent
    while lp is not None and not isinstance(lp, ast.For):
        lp = lp._parent
    okl = lp is not None and vals and vals[0] == ("index", ENTRIES)
    # the byte offset of record i is i * size: an invariant of the loop,
    # however the offset is computed
    from ..poly import Poly
    from ..terms import fold_consts, plain
    oko = False
    off_txt = unparse(a[2])

    def ev(e_):
        v_ = folder.eval(e_, env, fn._module)
        if hasattr(v_, "cls") and v_.cls.is_int:
            v_ = v_.value
        return v_
    # first on value terms (temporaries and foldable sizes resolved) ...
    if okl:
        ot = fold_consts(plain(T.term(a[2], node)), ev)
        IDX = ("index", ENTRIES)
        oko = ot in (("binop", "Mult", IDX, ("const", size)),
                     ("binop", "Mult", ("const", size), IDX))
    # ... else as a loop invariant of the interpreter
    if okl and not oko:
        it0 = Interp(fn)
        enum = it0._enum_index(lp)
        if enum is not None:
            I = Poly.atom(enum[0])
            off0 = it0.sym(a[2], it0.cfg.node_containing(pk))
            it = Interp(fn, candidates=eq(off0, I * size) if
                        all(not x.startswith(("const:", "tuple("))
                            for x in off0.atoms()) else [])
            n2 = it.cfg.node_containing(pk)
            oko = it.holds_at(n2, eq(it.sym(a[2], n2), I * size))
    rep.check(okf and okl and oko, "C10-R3",
              inst, "record i is packed with RTE_PACK_STRING at byte i * %d "
              "(the format's size)" % size,
              construct="record offset %s" % off_txt, node=pk,
              fail="records are not packed at offset index * %d (the record "
                   "format's size): offset expression %s" % (size, off_txt))
    DATA = T.term(a[1], node)
    okb = DATA[0] == "new" and DATA[2][0] == "call" and \
        DATA[2][1] == ("global", "bytearray") and len(DATA[2][2]) == 1
    if okb:
        fl = Flow(fn)
        szt = fold_consts(plain(DATA[2][2][0]), ev)
        sz = fl.sym(_with_parents(reify(szt)), fl.cfg.entry)
        want = fl.sym(_with_parents(ast.parse(
            "len(%s)" % ps[1], mode="eval").body), fl.cfg.entry) * size
        okb = sz == want
    W = _argterms(T, write_call, program.get(CTRL + ".write"))
    rep.check(okb and W.get("data") == DATA, "C10-R3", inst,
              "the staging data is %d bytes per entry and is what gets "
              "written" % size, construct="staging size", node=fn)
    okv = len(slots) == 5 and [s_[1] for s_ in slots] == [2, 2, 4, 4, 4] and \
        endian == "little" and len(vals) == 5 and \
        vals[0] == ("index", ENTRIES) and vals[1] == ("const", 0) and \
        vals[3:] == [("attr", ENTRY, "key"), ("attr", ENTRY, "mask")]
    rep.check(okv, "C10-R3", inst, "record = (index:u16, 0:u16, route:u32, "
              "key:u32, mask:u32), little endian",
              construct="record values %s" % [show(v) for v in vals],
              node=pk,
              fail="the packed record is %s against format %r: key, mask or "
                   "route land in the wrong field" % (
                       [show(v) for v in vals], fmt))
    # route word = OR of 1 << r over entry.route, from 0 for every entry
    okr = False
    if len(vals) == 5:
        alts = alternatives(vals[2])
        bit = ("binop", "LShift", ("const", 1),
               ("elem", ("attr", ENTRY, "route")))
        zero = [x for x in alts if x == ("const", 0)]
        ors = [x for x in alts if x[0] == "binop" and x[1] == "BitOr" and
               bit in (x[2], x[3])]
        okr = len(zero) == 1 and len(ors) == 1 and len(alts) == 2
        if okr:
            other = ors[0][3] if ors[0][2] == bit else ors[0][2]
            okr = all(y in (("const", 0), ("rec",), ors[0])
                      for y in alternatives(other))
    rep.check(okr, "C10-R3", inst, "route word = OR over the entry's routes "
              "of 1 << route number, starting from 0 for every entry",
              construct="route word encoding", node=fn)
    # decoder
    up = program.get(MC + ":unpack_routing_table_entry")
    U = Terms(up)
    uenv = folder.module_env(MC)
    us = calls_in(up, "unpack") + calls_in(up, "unpack_from")
    if len(us) != 1:
        raise AnalysisError("unpack_routing_table_entry: unpack")
    un = U.cfg.node_containing(us[0])
    ut = U.term(us[0], un)
    okd = _fold_any(folder, uenv, up, reify(U.term(us[0].args[0], un))) == \
        fmt and U.term(us[0].args[1], un) == _P(formals(up)[0])
    WORD, KEY, MASK = [U._comp(ut, i, 5) for i in (2, 3, 4)]
    rt = calls_in(up, "RoutingTableEntry")
    okd = okd and len(rt) == 1
    routes_t = None
    if okd:
        rn = U.cfg.node_containing(rt[0])
        f = dict(zip(_nt_fields(program), rt[0].args))
        for k in rt[0].keywords:
            f[k.arg] = k.value
        okd = U.term(f["key"], rn) == KEY and U.term(f["mask"], rn) == MASK
        routes_t = U.term(f["route"], rn)
    rep.check(okd, "C10-R3", qual(up), "the decoder reads (_, free, route, "
              "key, mask) with the same format and rebuilds the entry from "
              "the decoded routes and those key and mask fields",
              construct="decoder slots", node=up)
    okc = False
    detail = ""
    built = U.filtered(routes_t) if routes_t is not None else None
    if built and len(built) == 1:
        it, elt, conds = built[0]
        routes_enum = folder.name("rig.routing_table.entries", "Routes")
        is_routes = it[0] in ("attr", "global") and \
            show(it).endswith("Routes")
        okc = is_routes and elt == ("elem", it) and len(conds) == 1 and \
            conds[0][1] is True
        if okc:
            bt = bit_test(conds[0][0])
            okc = bt is not None and bt[1] == elt
        if okc:
            lay = provenance(reify(bt[0]),
                             lambda e: _fold_int(folder, uenv, up, e))
            bits = 0
            for m_ in routes_enum:
                bits |= 1 << m_.value
            kept = 0
            for p_ in lay.pieces:
                if p_.src == unparse(reify(WORD)) and \
                        p_.src_lo == p_.dst_lo:
                    n_ = p_.n if p_.n is not None else 64
                    kept |= ((1 << n_) - 1) << p_.dst_lo
            detail = "bits tested 0x%08x" % (kept & 0xffffffff)
            okc = (kept & bits) == bits and lay.const == 0 and \
                sorted(m_.value for m_ in routes_enum) == list(range(24))
    if not okc and built and len(built) == 1:
        # whatever way the test is spelt ((w >> r) & 1, (w >> r) % 2 == 1,
        # w & (1 << r) ...): fold it for every route number and a spread of
        # route words; it must hold exactly when bit r of the word is set
        from ..terms import eval_closed
        it, elt, conds = built[0]
        routes_enum = folder.name("rig.routing_table.entries", "Routes")
        vals_ = sorted(m_.value for m_ in routes_enum)
        is_routes = it[0] in ("attr", "global") and \
            show(it).endswith("Routes")
        if is_routes and elt == ("elem", it) and len(conds) == 1 and \
                vals_ == list(range(24)):
            c0, pol0 = conds[0]

            def subst_(t_, m_):
                if t_ in m_:
                    return m_[t_]
                if not isinstance(t_, tuple) or not t_ or t_[0] == "const":
                    return t_
                return tuple(subst_(x_, m_) if isinstance(x_, tuple) else x_
                             for x_ in t_)
            words = [0, 0xffffff, 0x00ffffff, 0xa5a5a5, 0x5a5a5a, 0x800001,
                     0x7ffffe] + [1 << b_ for b_ in range(24)]
            try:
                good = True
                for r_ in vals_:
                    for w_ in words:
                        v_ = eval_closed(subst_(plain(c0), {
                            plain(elt): ("const", r_),
                            plain(WORD): ("const", w_)}))
                        if bool(v_) != (pol0 == bool((w_ >> r_) & 1)):
                            good = False
                okc = good
                detail = "folded over 24 routes x %d words" % len(words)
            except AnalysisError:
                pass
    rep.check(okc, "C10-R3", qual(up), "route r is reported iff bit r of the "
              "unmodified route word is set, for all 24 members of Routes "
              "(bits 0..23)", construct="route decoding %s" % detail,
              node=up,
              fail="the decoder does not test every one of bits 0..23 of "
                   "the route word as read (%s): some routes are lost when a "
                   "router is read back" % detail)
    inv = False
    top = 0xff000000
    forms = [mk_cmp("Eq", U._binop("BitAnd", WORD, ("const", top)),
                    ("const", top)),
             mk_cmp("Eq", ("binop", "RShift", WORD, ("const", 24)),
                    ("const", 255)),
             mk_cmp("Eq", U._binop("BitAnd", ("binop", "RShift", WORD,
                                               ("const", 24)),
                                   ("const", 255)), ("const", 255))]
    for r in returns_of(up):
        if isinstance(r.value, ast.Constant) and r.value.value is None:
            f = U.all_facts(U.cfg.node_of(r))
            inv = any(p and t in forms for t, p in f)
            if not inv:
                # any other spelling: fold the test over every top byte
                from ..terms import eval_closed

                def subst2_(t_, w_):
                    if t_ == plain(WORD):
                        return ("const", w_)
                    if not isinstance(t_, tuple) or not t_ or \
                            t_[0] == "const":
                        return t_
                    return tuple(subst2_(x_, w_) if isinstance(x_, tuple)
                                 else x_ for x_ in t_)
                for t, p in f:
                    if not any(st_ == plain(WORD)
                               for st_ in subterms(plain(t))):
                        continue
                    try:
                        inv = all(
                            bool(eval_closed(subst2_(plain(t), (tb_ << 24) |
                                                     lo_))) ==
                            (p == (tb_ == 0xff))
                            for tb_ in range(256)
                            for lo_ in (0, 0xffffff, 0x123456))
                    except AnalysisError:
                        inv = False
                    if inv:
                        break
    rep.check(inv, "C10-R3", qual(up), "an entry whose top route byte is "
              "0xff is reported as unused", construct="invalid entry test",
              node=up)
    rep.floor("C10-R3", 8)


def _with_parents(e):
    for n in ast.walk(e):
        for c in ast.iter_child_nodes(n):
            c._parent = n
    ast.fix_missing_locations(e)
    return e


def r4_readback(program, folder, rep):
    fn = program.get(CTRL + ".get_routing_table_entries")
    inst = qual(fn)
    T = Terms(fn)
    env = folder.module_env(MC)
    ps = formals(fn)
    fmt = folder.name(CONSTS, "RTE_PACK_STRING")
    size = parse_format(fmt)[2]
    rd = [c for c in calls_in(fn, "read") if chain(c.func.value) == "self"]
    okr = len(rd) == 1
    DATA = None
    if okr:
        R = _argterms(T, rd[0], program.get(CTRL + ".read"))
        DATA = T.term(rd[0])
        okr = R.get("x") == _P(ps[1]) and R.get("y") == _P(ps[2]) and \
            _fold_int(folder, env, fn, reify(R["length_bytes"])) == \
            folder.name(CONSTS, "RTR_ENTRIES") * size
        bc = [c for c in calls_in(fn, "read_struct_field")
              if T.term(c) == R.get("address")]
        okr = okr and len(bc) == 1
        if okr:
            B = _argterms(T, bc[0], program.get(CTRL + ".read_struct_field"))
            okr = B.get("struct_name") == ("const", "sv") and \
                B.get("field_name") == ("const", "rtr_copy") and \
                B.get("x") == _P(ps[1]) and B.get("y") == _P(ps[2])
    rep.check(okr, "C10-R4", inst, "RTR_ENTRIES records of the "
              "format's size are read from sv.rtr_copy of that chip",
              construct="readback size", node=fn)
    # the copy is cut into consecutive records, decoded in order
    aps = [c for c in calls_in(fn, "append") if len(c.args) == 1]
    oks = False
    if len(aps) == 1 and DATA is not None:
        n = T.cfg.node_containing(aps[0])
        item = T.term(aps[0].args[0], n)
        m = match(("call", ("global", "unpack_routing_table_entry"),
                   (V("rec"),), ()), item)
        if m is not None:
            oks = _record_cut(folder, env, fn, m["rec"], DATA, size)
    elif not aps and DATA is not None:
        # the table built by a comprehension over the record offsets
        found = False
        for r_ in returns_of(fn):
            if r_.value is None:
                continue
            t_ = strip_new(T.term(r_.value, T.cfg.node_of(r_)))
            if t_[0] == "listcomp":
                m = match(("call", ("global", "unpack_routing_table_entry"),
                           (V("rec"),), ()), t_[1])
                if m is not None:
                    found = True
                    oks = _record_cut(folder, env, fn, m["rec"], DATA, size)
        if not found:
            raise AnalysisError("get_routing_table_entries: the records "
                                "are neither appended one by one nor built "
                                "by a comprehension over the copy; that "
                                "form is not read")
    rep.check(oks, "C10-R4", inst, "the copy is cut into consecutive "
              "records of that size, decoded in order",
              construct="readback slicing", node=fn)
    n = folder.name(CONSTS, "RTR_ENTRIES")
    rep.check(n == 1024, "C10-R4", CONSTS + ":RTR_ENTRIES", "the router has "
              "1024 entries", construct="RTR_ENTRIES %r" % n)


def _record_cut(folder, env, fn, rec, DATA, size):
    """The two ways of walking a buffer record by record: (a) peel the first
    ``size`` bytes off the remainder until it is empty; (b) slice at
    start = 0, size, 2*size ... below len(buffer)."""
    def const(t):
        return _fold_int(folder, env, fn, reify(t))
    if rec[0] != "item" or rec[2][0] != "slice":
        return False
    base, (_, lo, hi, st) = rec[1], rec[2]
    if st != ("const", None):
        return False
    # (a)  data[:S] of data := phi(read, data[S:])
    if lo == ("const", None) and const(hi) == size:
        alts = alternatives(base)
        rest = [x for x in alts if x != DATA]
        return DATA in alts and len(rest) == 1 and rest[0][0] == "item" and \
            rest[0][2][0] == "slice" and const(rest[0][2][1]) == size and \
            rest[0][2][2] == ("const", None) and \
            all(y in (DATA, rest[0], ("rec",))
                for y in alternatives(rest[0][1]))
    # (b)  data[s:s + S] for s in range(0, len(data), S)
    if base == DATA and lo[0] == "elem":
        m = match(("call", ("global", "range"), (V("a"), V("b"), V("c")), ()),
                  lo[1])
        if m is None:
            return False
        if hi[0] != "binop" or hi[1] != "Add" or lo not in (hi[2], hi[3]):
            return False
        step = hi[3] if hi[2] == lo else hi[2]
        return const(m["a"]) == 0 and const(m["c"]) == size and \
            const(step) == size and \
            m["b"] == ("call", ("global", "len"), (DATA,), ())
    return False


def r1_entry_ctor(program, rep):
    """A RoutingTableEntry holds exactly the route, key, mask and sources it
    is constructed with (copies into a set / frozenset are the same
    values): the constructor is on the way of every entry of every table."""
    ENT = "rig.routing_table.entries:RoutingTableEntry.__new__"
    if not program.has(ENT):
        raise AnalysisError("RoutingTableEntry has no __new__ of its own; "
                            "that form is not analysed")
    fn = program.get(ENT)
    T = Terms(fn)
    ps = formals(fn)          # cls, route, key, mask, sources
    rets = [r for r in returns_of(fn) if r.value is not None]
    if len(rets) != 1 or not isinstance(rets[0].value, ast.Call) or \
            len(ps) != 5:
        raise AnalysisError("RoutingTableEntry.__new__: construction of the "
                            "tuple")
    rn = T.cfg.node_of(rets[0])
    raw = [T.term(a, rn) for a in rets[0].value.args]
    args = [plain(a) for a in raw]
    if len(args) != 5:
        raise AnalysisError("RoutingTableEntry.__new__: construction of the "
                            "tuple")
    # a copy made here must not be changed before it is stored
    from ..terms import method_calls as _mc
    from ..dataflow import MUTATORS as _MUT
    changed = {}
    for n_, c_, recv_, a_ in _mc(T, sorted(_MUT)):
        for k, r_ in enumerate(raw):
            if r_[0] == "new" and recv_ == r_:
                changed[k] = c_

    def same_values(t, p):
        P = ("param", p)
        return t == P or (t[0] in ("call", "callv") and t[1] in (
            ("global", "set"), ("global", "frozenset"), ("global", "tuple"),
            ("global", "list")) and t[2] == (P,))
    for k, nm in enumerate(ps[1:], 1):
        rep.check(same_values(args[k], nm) and k not in changed, "C10-R1",
                  qual(fn),
                  "the entry's %s is the %s it was constructed with" % (
                      nm, nm), construct="entry field %s" % nm,
                  node=rets[0],
                  fail="RoutingTableEntry stores %s as its %s, not the "
                       "values it was given: entries built for a table "
                       "(e.g. with a None source next to a link) are "
                       "altered on the way" % (
                           show(args[k])[:60] + (
                               " changed by %s" % unparse(changed[k])
                               if k in changed else ""), nm))


def check(program, rep):
    program.module(MC)
    folder = Folder(program)
    rep.guard("C10-R1", r1_tables, program, rep)
    rep.guard("C10-R1", r1_entry_ctor, program, rep)
    w = rep.guard(["C10-R2", "C10-R3"], r2_order, program, folder, rep)
    rep.guard("C10-R3", r3_layout, program, folder, rep, w)
    rep.guard("C10-R4", r4_readback, program, folder, rep)
    rep.floor("C10-R2", 7)
    # arguments handed to package functions under the wrong name / same-
    # named optional parameters not passed on (NAMELINK, DESIGN.md 9.13)
    from .. import namelink as _nl
    rep.guard("C10-R5", _nl.rule, program, rep, "C10-R5",
              [m for m in sorted(program.modules) if m.startswith("rig.machine_control")] + [m for m in sorted(program.modules) if m.startswith("rig.routing_table")] + ["rig.place_and_route.routing_tree"])
    # every command of this operation travels under a sequence number: the
    # numbers fit the 16-bit wire field and use all of it (C06-R2)
    from . import C06 as _C06
    rep.guard("C06-R2", _C06.r2_seq_numbers, program, rep, folder)
    return finish(rep, program, EXPLANATION, NOT_DECIDED,
                  trusted=["struct format semantics", "documented command "
                           "word layout (count<<16 | app_id<<8 | op)"])
