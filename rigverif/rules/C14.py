"""C14 - the probed system description and the derived machine model match
the machine.

R1 chip-information reply decode (bit layout, payload format)
R2 point-to-point table walk
R3 derived dead sets and membership tests (SystemInfo and Machine)
R4 machine model: exceptions relative to the very defaults used
R5 core reservations partition the busy cores; minimal contiguous ranges
R6 status / console buffer / router counter decode against sark.struct
"""
import ast
import re

from ..core import AnalysisError, finish, unparse
from ..constfold import Folder, EnumMember
from ..bits import provenance
from ..dataflow import Flow, chain, call_name
from ..poly import Poly
from ..terms import Terms, mk_cmp, is_none, plain, match, V, ANY, show, \
    subterms, alternatives, stores, method_calls, lookup, truth_paths, \
    yields, reify, owner_terms, owner_views, bit_test, one_level
from ..util import calls_in, qual, formals, returns_of, has_fact, bind

MC = "rig.machine_control.machine_controller"
CTRL = MC + ":MachineController"
PU = "rig.place_and_route.utils"
MA = "rig.place_and_route.machine"
CONSTS = "rig.machine_control.consts"

# SC&MP cmd_info reply, arg1 (scamp-3 scamp-cmd.c): field -> (lo bit, width)
INFO_ARG1 = {"num_cores": (0, 5), "working_links": (8, 6),
             "largest_free_rtr_mc_block": (14, 11), "ethernet_up": (25, 1)}

EXPLANATION = (
    "R1: bit provenance of every field extracted from the chip-information "
    "reply is compared with the documented layout (cores 4:0, links 13:8 "
    "with bit 8+link, router block 24:14, Ethernet 25; payload '<18BHI'). "
    "R2: the P2P table walk's column address normalises to base + 128*col, "
    "the word buffer advances by 4 per word, entries are bits 3k+2:3k, at "
    "most min(8, height-row) per word, and every 3-bit value is a member of "
    "P2PTableEntry (folded). R3/R4/R5: comprehension conditions, def-use "
    "identity between defaults and exception test, single-bit tests of the "
    "same core number in the global and per-chip reservation filters, the "
    "range-merging generator's branch structure. R6: sark.struct is parsed "
    "by the checker: every vcpu field popped/renamed exists and the final "
    "key set equals ProcessorStatus._fields.")
EXPLANATION += (
    " R2 also checks the class hierarchy of what send_scp_burst raises "
    "against the handler of the probe. R6 also requires each status field "
    "to be decoded with its own pack_chars at its own offset.")
NOT_DECIDED = ["that the machine's replies mean what the documentation says",
               "behaviour when a chip stops responding mid-probe (only the "
               "SCPError skip is checked)"]


def _const_of(folder, mod, extra=None):
    env = dict(folder.module_env(mod.name))
    if extra:
        env.update(extra)

    def f(e):
        try:
            v = folder.eval(e, env, mod)
        except AnalysisError:
            return None
        if isinstance(v, EnumMember) and v.cls.is_int:
            v = v.value
        if isinstance(v, bool) or not isinstance(v, int):
            return None
        return v
    return f


def _subst(t, old, new):
    if t == old:
        return new
    if not isinstance(t, tuple) or not t or t[0] == "const":
        return t
    return tuple(_subst(x, old, new) if isinstance(x, tuple) else x
                 for x in t)


def _strip_truth(t):
    """The integer expression whose non-zero-ness a boolean term tests."""
    t = plain(t)
    while True:
        if t[0] == "call" and t[1] == ("global", "bool") and len(t[2]) == 1:
            t = t[2][0]
        elif t[0] == "cmp" and t[1] == "Eq" and ("const", 1) in (t[2], t[3]):
            t = t[3] if t[2] == ("const", 1) else t[2]
        elif t[0] == "not" and t[1][0] == "cmp" and t[1][1] == "Eq" and \
                ("const", 0) in (t[1][2], t[1][3]):
            t = t[1][3] if t[1][2] == ("const", 0) else t[1][2]
        else:
            return t


def r1_chip_info(program, folder, rep):
    """Anchored on the fields of the ChipInfo that is returned (its keyword
    names are API): each field's value term is reduced to 'which bits of
    which reply word', whatever temporaries and loop/comprehension spelling
    the decoding uses."""
    fn = program.get(CTRL + ".get_chip_info")
    inst = qual(fn)
    mod = fn._module
    cf = _const_of(folder, mod)
    T = Terms(fn)
    ps = formals(fn)
    r = [x for x in returns_of(fn) if x.value is not None]
    if len(r) != 1 or not isinstance(r[0].value, ast.Call):
        raise AnalysisError("get_chip_info: one ChipInfo(...) expected")
    rn = T.cfg.node_of(r[0])
    kw = {k.arg: T.term(k.value, rn) for k in r[0].value.keywords}
    sends = calls_in(fn, "_send_scp")
    if len(sends) != 1:
        raise AnalysisError("get_chip_info: one command expected")
    INFO = T.term(sends[0])
    ARG1 = unparse(reify(("attr", INFO, "arg1")))

    def bits(t, env=None):
        lay = provenance(reify(plain(t)), _const_of(folder, mod, env))
        if len(lay.pieces) != 1 or lay.const:
            return None
        p = lay.pieces[0]
        return p.src, p.src_lo, p.n, p.dst_lo
    got = {}
    for field in ("num_cores", "largest_free_rtr_mc_block"):
        b_ = bits(kw.get(field, ("?",)))
        if b_ and b_[0] == unparse(reify(plain(("attr", INFO, "arg1")))) \
                and b_[3] == 0:
            got[field] = (b_[1], b_[2])
    b_ = bits(_strip_truth(kw.get("ethernet_up", ("?",))))
    if b_ and b_[0] == unparse(reify(plain(("attr", INFO, "arg1")))):
        got["ethernet_up"] = (b_[1], b_[2])
    links = folder.name("rig.links", "Links")
    built = T.filtered(kw.get("working_links", ("?",)))
    LINK = ("elem", ("global", "Links"))
    if built and len(built) == 1 and built[0][0] == ("global", "Links") \
            and built[0][1] == LINK and len(built[0][2]) == 1 and (
                built[0][2][0][1] is True or (
                    built[0][2][0][0][0] == "cmp" and
                    built[0][2][0][0][1] == "Eq" and
                    ("const", 0) in built[0][2][0][0][2:])):
        cond = built[0][2][0][0]
        if built[0][2][0][1] is not True:
            # 'x != 0' arrives as (x == 0, False): the same test as x
            cond = cond[3] if cond[2] == ("const", 0) else cond[2]
        cond = _strip_truth(cond)
        lb = []
        for m in links:
            b_ = bits(_subst(plain(cond), LINK, ("const", m.value)))
            lb.append(b_[1] if b_ and b_[2] == 1 and b_[0] == unparse(
                reify(plain(("attr", INFO, "arg1")))) else None)
        if None not in lb and lb == [8 + m.value for m in links]:
            got["working_links"] = (min(lb), len(lb))
    unread = sorted(f_ for f_ in INFO_ARG1 if f_ not in got)
    for field, (lo, n) in sorted(INFO_ARG1.items()):
        if field in unread:
            continue
        rep.check(got.get(field) == (lo, n), "C14-R1", inst,
                  "%s = arg1 bits %d:%d" % (field, lo + n - 1, lo),
                  construct="%s from %s" % (field, got.get(field)), node=fn,
                  fail="%s is decoded from arg1 bits %s; SC&MP reports it in "
                       "bits %d:%d" % (field, got.get(field), lo + n - 1,
                                       lo))
    if unread:
        rep.undecided("C14-R1", "get_chip_info: %s %s not computed from the "
                      "first reply word by shifts and masks these rules can "
                      "read" % (", ".join(unread),
                                "is" if len(unread) == 1 else "are"))
    # payload
    up = [c for c in calls_in(fn, ("unpack_from", "unpack"))]
    if len(up) != 1 or folder.eval(up[0].args[0], {}, mod) != "<18BHI":
        raise AnalysisError("get_chip_info: the payload is not decoded by "
                            "one struct.unpack_from('<18BHI', ...); another "
                            "(possibly equivalent) format is not analysed")
    st_ = up[0]
    while st_ is not None and not isinstance(st_, ast.stmt):
        st_ = getattr(st_, "_parent", None)
    if isinstance(st_, ast.Assign) and any(
            isinstance(x, ast.Starred) for t_ in st_.targets
            for x in ast.walk(t_)):
        raise AnalysisError("get_chip_info: the payload items are bound "
                            "through a starred target; which item goes where "
                            "is not read off that form")
    okp = len(up) == 1 and folder.eval(up[0].args[0], {}, mod) == "<18BHI" \
        and T.term(up[0].args[1]) == ("attr", INFO, "data")
    DATA = T.term(up[0]) if okp else None
    okc = okl = oki = False
    unread_p = []       # parts whose form is not one these rules read
    if okp:
        NUM = kw.get("num_cores")
        states = ("listcomp", ("call", ("attr", ("global", "consts"),
                                        "AppState"),
                               (("elem", ("item", DATA, ("slice", ("const",
                                                                   None),
                                                         ("const", 18),
                                                         ("const", None)))),),
                               ()),
                  ((("item", DATA, ("slice", ("const", None), ("const", 18),
                                    ("const", None))), ()),))
        cs_raw = kw.get("core_states", ("?",))
        cs = plain(cs_raw)
        okc = cs == ("item", plain(states), ("slice", ("const", None),
                                              plain(NUM), ("const", None)))
        if not okc and cs_raw[0] == "item" and cs[2] == (
                "slice", ("const", None), plain(NUM), ("const", None)):
            # the list of states filled by a loop: the same elements
            built_ = T.filtered(cs_raw[1])
            FIRST18 = ("item", plain(DATA), ("slice", ("const", None),
                                              ("const", 18), ("const", None)))
            okc = bool(built_) and len(built_) == 1 and \
                plain(built_[0][0]) == FIRST18 and not built_[0][2] and \
                plain(built_[0][1]) == ("call", ("attr", ("global", "consts"),
                                                 "AppState"),
                                        (("elem", FIRST18),), ())
        if not okc and not (cs_raw[0] == "item" and cs[2][0] == "slice"):
            unread_p.append("core states")
        le_ = kw.get("local_ethernet_chip", ("?",))
        if not (le_[0] == "tuple" and len(le_) == 3 and
                all(bits(e) is not None for e in le_[1:])):
            unread_p.append("local Ethernet chip")
        if le_[0] == "tuple" and len(le_) == 3:
            src = unparse(reify(plain(("comp", DATA, 18))))
            hi_, lo_ = [bits(e) for e in le_[1:]]
            # (the source is the 16-bit 'H' field: everything above bit 8
            # is its upper byte, masked or not)
            okl = hi_ is not None and hi_[:2] == (src, 8) and hi_[2] >= 8 \
                and hi_[3] == 0 and lo_ == (src, 0, 8, 0)
        ip = plain(kw.get("ip_address", ("?",)))
        m = match(("call", ("attr", ("const", "."), "join"),
                   (("genexp", ("call", ("global", "str"), (V("b"),), ()),
                     ((V("it"), ()),)),), ()), ip)
        if m is None:
            unread_p.append("IP address")
        if m is not None:
            try:
                shifts = list(folder.eval(reify(m["it"]), {}, mod))
            except Exception:
                shifts = None
            src = unparse(reify(plain(("comp", DATA, 19))))
            oki = shifts == [0, 8, 16, 24] and all(
                bits(_subst(m["b"], T._elem(m["it"]), ("const", s_))) ==
                (src, s_, 8, 0) for s_ in shifts)
    if unread_p and okp:
        # the parts that are in a form read are still judged
        okc = okc or "core states" in unread_p
        okl = okl or "local Ethernet chip" in unread_p
        oki = oki or "IP address" in unread_p
        rep.undecided("C14-R1", "get_chip_info: %s computed from the payload "
                      "in a form these rules do not read (not slices / "
                      "shifts and masks / a join over byte shifts)" %
                      ", ".join(unread_p))
    rep.check(okp and okc and okl and oki, "C14-R1", inst,
              "payload '<18BHI': 18 core states, local Ethernet chip as "
              "(high byte, low byte) = (x, y), IP address low byte first",
              construct="chip info payload%s%s%s" % (
                  "" if okc else " (core states)",
                  "" if okl else " (ethernet chip)",
                  "" if oki else " (ip)"), node=fn)
    okr = kw.get("largest_free_sdram_block") == ("attr", INFO, "arg2") and \
        kw.get("largest_free_sram_block") == ("attr", INFO, "arg3") and \
        set(kw) == {"num_cores", "core_states", "working_links",
                    "largest_free_sdram_block", "largest_free_sram_block",
                    "largest_free_rtr_mc_block", "ethernet_up", "ip_address",
                    "local_ethernet_chip"}
    rep.check(okr, "C14-R1", inst, "ChipInfo fields receive their namesake "
              "values; core states truncated to the core count; free SDRAM "
              "/ SRAM = arg2 / arg3", construct="ChipInfo construction",
              node=fn)
    n_ = T.cfg.node_containing(sends[0])
    a_ = [T.term(x, n_) for x in sends[0].args[:4]]
    oks = a_[:3] == [("param", ps[1]), ("param", ps[2]), ("const", 0)] and \
        len(a_) == 4 and a_[3] == ("attr", ("global", "SCPCommands"), "info")
    rep.check(oks, "C14-R1", inst, "the information command goes to core 0 "
              "of the chip asked about", construct="info target", node=fn)
    rep.floor("C14-R1", 6)


def _wp(e):
    for n in ast.walk(e):
        for c in ast.iter_child_nodes(n):
            c._parent = n
    ast.fix_missing_locations(e)
    return e


def _size(t):
    return sum(1 for _ in subterms(t))


def r2_p2p(program, folder, rep):
    fn = program.get(CTRL + ".get_p2p_routing_table")
    inst = qual(fn)
    mod = fn._module
    cf = _const_of(folder, mod)
    T = Terms(fn)
    from ..constfold import consts_for
    fl2 = Flow(fn, consts=consts_for(folder, fn))
    rd = [c for c in calls_in(fn, "read") if chain(c.func.value) == "self"]
    if len(rd) != 1:
        raise AnalysisError("get_p2p_routing_table: one column read")
    n = T.cfg.node_containing(rd[0])
    from ..util import bind
    B = {k: T.term(v, n) for k, v in bind(
        rd[0], program.get(CTRL + ".read")).items()}
    dims_calls = [c for c in calls_in(fn, "read_struct_field")]
    DIMS = None
    for c in dims_calls:
        t = T.term(c)
        if ("const", "p2p_dims") in t[2]:
            DIMS = t
    if DIMS is None:
        raise AnalysisError("get_p2p_routing_table: p2p_dims")
    dsrc = unparse(reify(plain(DIMS)))

    def field(t):
        lay = provenance(reify(plain(t)), cf)
        if len(lay.pieces) == 1 and not lay.const and \
                lay.pieces[0].src == dsrc and lay.pieces[0].dst_lo == 0:
            return lay.pieces[0].src_lo, lay.pieces[0].n
        return None
    # the column loop: col ranges over the table's width
    COL = None
    for st_ in subterms(B.get("address", ("?",))):
        if st_[0] == "elem" and st_[1][0] == "call" and \
                st_[1][1] == ("global", "range") and len(st_[1][2]) == 1:
            COL = st_
    dims = {}
    if COL is not None:
        dims["width"] = field(COL[1][2][0])
    hs = sorted((x for x in subterms(B.get("length_bytes", ("?",)))
                 if field(x) == (0, 8)), key=_size, reverse=True)
    HEIGHT = hs[0] if hs else None
    dims["height"] = field(HEIGHT) if HEIGHT else None
    rep.check(dims == {"width": (8, 8), "height": (0, 8)}, "C14-R2", inst,
              "width = p2p_dims[15:8], height = p2p_dims[7:0]",
              construct="p2p dims %s" % sorted(dims.items()), node=fn)
    okw = False
    if HEIGHT is not None:
        h = fl2.sym(_wp(reify(plain(HEIGHT))), fl2.cfg.entry)
        okw = fl2.sym(_wp(reify(plain(B["length_bytes"]))),
                      fl2.cfg.entry) == fl2.fdiv(h + 7, Poly.const(8)) * 4
    rep.check(okw, "C14-R2", inst, "bytes per column = ceil(height / 8) "
              "words", construct="col_words", node=fn)
    oka = False
    if COL is not None:
        base = folder.name(CONSTS, "SPINNAKER_RTR_P2P")
        a_ = fl2.sym(_wp(reify(plain(B["address"]))), fl2.cfg.entry)
        col = fl2.sym(_wp(reify(plain(COL))), fl2.cfg.entry)
        ps = formals(fn)
        oka = a_ == col * 128 + base and \
            B.get("x") == ("param", ps[1]) and B.get("y") == ("param", ps[2])
    rep.check(oka, "C14-R2", inst, "column c is read from P2P base + 128 * "
              "c (256 entries x 3 bits packed 8 per word)",
              construct="column address", node=fn)
    rep.guard("C14-R2", _p2p_decode, program, folder, rep, fn, T, COL,
              HEIGHT, T.term(rd[0], n))
    p2p = folder.name(CONSTS, "P2PTableEntry")
    rep.check(sorted(m.value for m in p2p) == list(range(8)), "C14-R2",
              CONSTS + ":P2PTableEntry", "every 3-bit value is a member of "
              "P2PTableEntry (the constructor cannot fail)",
              construct="P2PTableEntry values")
    rep.guard("C14-R2", _system_probe, program, folder, rep)
    rep.floor("C14-R2", 6)


def _system_probe(program, folder, rep):
    # get_system_info: probes exactly the chips with a route
    gi = program.get(CTRL + ".get_system_info")
    G = Terms(gi)
    tc = calls_in(gi, "get_p2p_routing_table")
    if len(tc) != 1:
        raise AnalysisError("get_system_info: P2P table")
    TABLES = G.term(tc[0])
    E = ("elem", ("items", TABLES))
    CX, CY = ("comp", ("comp", E, 0), 0), ("comp", ("comp", E, 0), 1)
    NONE = ("attr", ("attr", ("global", "consts"), "P2PTableEntry"), "none")
    routed = (mk_cmp("Eq", ("comp", E, 1), NONE), False)
    okg = False
    n_probe_stores = 0
    for n_, st, base, key, val in stores(G):
        if not (val[0] == "callv" and val[1][0] == "attr" and
                val[1][2] == "get_chip_info"):
            continue
        n_probe_stores += 1
        okg = val[2] == (CX, CY) and key in (("tuple", CX, CY),
                                              ("comp", E, 0))
        facts = G.all_facts(n_)
        filt = routed in facts
        lp = st._parent
        while lp is not None and not isinstance(lp, ast.For):
            lp = lp._parent
        if lp is not None and not filt:
            built = G.filtered(G.term(lp.iter, G.cfg.loop_head[id(lp)]))
            filt = bool(built) and len(built) == 1 and \
                built[0][0] == ("items", TABLES) and \
                routed in [(c, p) for c, p in built[0][2]]
        # an unresponsive chip is skipped: the probe is inside try/except
        # (the try encloses the *call*; the store of what it returned may
        # come after it)
        guarded = True
        for pc in calls_in(gi, "get_chip_info"):
            tr = pc._parent
            while tr is not None and not (isinstance(tr, ast.Try) and any(
                    _inside(pc, b_) for b_ in tr.body)):
                tr = tr._parent
            guarded = guarded and tr is not None and any(
                h.type is not None and unparse(h.type) == "SCPError"
                for h in tr.handlers)
        okg = okg and filt and guarded
        # size = largest routed coordinate + 1
        si = plain(base)
        oks = False
        if si[0] == "call" and si[1] == ("global", "SystemInfo") and \
                len(si[2]) == 2:
            oks = True
            for dim, c_ in zip(si[2], (CX, CY)):
                m = None
                for pat in (("binop", "Add", V("m"), ("const", 1)),
                            ("binop", "Add", ("const", 1), V("m"))):
                    m = m or match(pat, dim)
                want = ("call", ("global", "max"),
                        (("genexp", plain(c_),
                          ((plain(("items", TABLES)),
                            (("not", routed[0]),)),)),), ())
                if dim[0] == "const":
                    # a fixed size handed to SystemInfo (and corrected
                    # later, if at all): not the extent of the routed chips
                    oks = False
                    continue
                if m is None or not (
                        m["m"][0] == "call" and
                        m["m"][1] == ("global", "max") and
                        len(m["m"][2]) == 1 and
                        m["m"][2][0][0] in ("genexp", "listcomp",
                                            "setcomp")):
                    raise AnalysisError("get_system_info: the size of the "
                                        "machine is not 1 + max(<coordinate "
                                        "of each routed chip>) in a form "
                                        "these rules read")
                oks = oks and m["m"] == plain(want)
        okg = okg and oks
    if not n_probe_stores and calls_in(gi, "get_chip_info"):
        raise AnalysisError("get_system_info: what get_chip_info returns is "
                            "not stored into the description under the "
                            "chip's coordinates where it is obtained; how "
                            "the probes are collected is not analysed in "
                            "that form")
    # "unresponsive chips are skipped": what the transport raises for a
    # chip that does not answer (or answers with a fatal code) is caught by
    # the handler, i.e. is the handler's class or derived from it
    scp = program.module("rig.machine_control.scp_connection")
    bases = {}
    for cd in ast.walk(scp.tree):
        if isinstance(cd, ast.ClassDef):
            bases[cd.name] = [chain(b_) for b_ in cd.bases]

    def derives(name, root, seen=()):
        if name == root:
            return True
        if name in seen or name not in bases:
            return False
        return any(b_ is not None and derives(b_.split(".")[-1], root,
                                              seen + (name,))
                   for b_ in bases[name])
    burst = program.get("rig.machine_control.scp_connection:"
                        "SCPConnection.send_scp_burst")
    from ..util import raises_of as _raises_of, raise_name as _raise_name
    raised = sorted(set(_raise_name(r_) for r_ in _raises_of(burst)) - {None})
    if not raised:
        raise AnalysisError("send_scp_burst: no explicit raise found (the "
                            "errors of an unanswered command were expected "
                            "there)")
    for nm in raised:
        rep.check(derives(nm, "SCPError"), "C14-R2",
                  "rig.machine_control.scp_connection:%s" % nm,
                  "%s, raised by the transport for a command that got no "
                  "(usable) answer, is an SCPError: the probe's handler "
                  "catches it and the chip is left out" % nm,
                  construct="exception class %s(%s)" % (
                      nm, ", ".join(str(b_) for b_ in bases.get(nm, []))),
                  node=burst,
                  fail="%s is raised by send_scp_burst but is not derived "
                       "from SCPError (bases: %s): 'except SCPError' in "
                       "get_system_info does not catch it, so one "
                       "unresponsive chip makes the whole probe fail instead "
                       "of being left out" % (nm, bases.get(nm)))
    rep.check(okg, "C14-R2", qual(gi), "every chip with a P2P route is "
              "probed under its own coordinates; unresponsive chips are "
              "skipped; size = largest routed coordinate + 1",
              construct="system probe", node=gi)


def _p2p_decode(program, folder, rep, fn, T, COL, HEIGHT, RAW):
    """The column decode, in either of the two forms understood: a buffer
    peeled four bytes at a time, or the whole column unpacked into words that
    are indexed by row."""
    if any(isinstance(n, ast.While) for n in ast.walk(fn)):
        return _p2p_stream(program, folder, rep, fn)
    return _p2p_indexed(program, folder, rep, fn, T, COL, HEIGHT, RAW)


def _p2p_indexed(program, folder, rep, fn, T, COL, HEIGHT, RAW):
    inst = qual(fn)
    st = [x for x in stores(T) if x[4][0] in ("call", "callv") and
          x[4][1][0] == "attr" and x[4][1][2] == "P2PTableEntry" and
          len(x[4][2]) == 1]
    if len(st) != 1 or COL is None or HEIGHT is None:
        raise AnalysisError("the column decode is in a form that is not "
                            "analysed")
    n_, stmt, base, key, val = st[0]
    ROW = ("elem", ("call", ("global", "range"), (HEIGHT,), ()))
    X = val[2][0]
    m = None
    for pat in (("binop", "BitAnd", ("binop", "RShift", V("w"), V("sh")),
                 ("const", 7)),
                ("binop", "BitAnd", ("const", 7),
                 ("binop", "RShift", V("w"), V("sh")))):
        m = m or match(pat, X)
    if m is None or m["w"][0] != "item":
        # word by word with a count of entries per word: that count, at
        # least, can be folded for every height and word
        _p2p_entries_per_word(rep, fn, T, HEIGHT, stmt, inst)
        raise AnalysisError("the column decode is in a form that is not "
                            "analysed")
    WORDS, WI = m["w"][1], m["w"][2]
    pw = plain(WORDS)
    oks = pw[0] == "call" and pw[1] in (
        ("attr", ("global", "struct"), "unpack_from"),
        ("attr", ("global", "struct"), "unpack")) and not pw[3] and \
        len(pw[2]) in (2, 3) and pw[2][1] == plain(RAW) and \
        (len(pw[2]) == 2 or pw[2][2] == ("const", 0))
    if oks:
        f = pw[2][0]
        fmt = None
        if f[0] == "call" and f[1][0] == "attr" and f[1][2] == "format" and \
                f[1][1][0] == "const" and len(f[2]) == 1:
            fmt = f[1][1][1].replace("{}", "N").replace("{0}", "N").replace(
                "{:d}", "N")
        elif f[0] == "binop" and f[1] == "Mod" and f[2][0] == "const" and \
                isinstance(f[2][1], str):
            fmt = f[2][1].replace("%d", "N")
        oks = fmt == "<NI"
    rep.check(oks, "C14-R2", inst, "the column is unpacked from its first "
              "byte as little-endian 32-bit words (word i = bytes 4i..4i+3)",
              construct="word stream", node=fn,
              fail="the words indexed by the decode are not the "
                   "little-endian 32-bit words of the column read")
    sh = m["sh"]
    r8 = ("binop", "Mod", ROW, ("const", 8))
    okm = key == ("tuple", COL, ROW) and \
        WI == ("binop", "FloorDiv", ROW, ("const", 8)) and \
        sh in (("binop", "Mult", ("const", 3), r8),
               ("binop", "Mult", r8, ("const", 3)))
    # no row is skipped
    lp = stmt._parent
    while lp is not None and not isinstance(lp, ast.For):
        lp = lp._parent
    okm = okm and lp is not None and not any(
        isinstance(x, (ast.Break, ast.Continue, ast.If))
        for x in ast.walk(lp)) and \
        T.cfg.must_pass([s for s in T.cfg.loop_head[id(lp)].succ
                         if s.label == "forbody"][0], lambda x: x is n_,
                        targets=[T.cfg.loop_head[id(lp)], T.cfg.exit])
    rep.check(okm, "C14-R2", inst, "row r of column c is bits 3(r % 8)+2 : "
              "3(r % 8) of word r // 8, for every r below the height",
              construct="entry extraction", node=fn,
              fail="the entry stored for (col, row) is not bits 3(row % 8)+2"
                   ":3(row % 8) of word row // 8 of that column")


def _p2p_entries_per_word(rep, fn, T, HEIGHT, stmt, inst):
    """Word k of a column of height h carries min(8, h - 8k) entries.  Read
    off a decode of the form ``for k, word in enumerate(words): ... for e
    in range(<count>): table[...] = ...`` by folding <count> for every h in
    1..255 and every word of the column (a necessary condition only: which
    bits and which row each entry gets is not judged here)."""
    from ..terms import eval_closed
    inner = stmt._parent
    while inner is not None and not isinstance(inner, ast.For):
        inner = inner._parent
    outer = inner._parent if inner is not None else None
    while outer is not None and not isinstance(outer, ast.For):
        outer = outer._parent
    if inner is None or outer is None or not (
            isinstance(inner.iter, ast.Call) and
            call_name(inner.iter)[0] == "range" and
            len(inner.iter.args) == 1 and
            isinstance(outer.target, ast.Tuple) and
            len(outer.target.elts) == 2 and
            isinstance(outer.iter, ast.Call) and
            call_name(outer.iter)[0] == "enumerate" and
            len(outer.iter.args) == 1):
        return
    hn = T.cfg.loop_head[id(inner)]
    K = plain(T.term(outer.target.elts[0], hn))
    Hh = plain(HEIGHT)
    count = inner.iter.args[0]
    cases = []
    ct = plain(T.term(count, hn))
    if not any(st_[0] in ("mu", "phi", "rec", "opaque")
               for st_ in subterms(ct)):
        cases = [(None, ct)]
    else:
        ifs = [i_ for i_ in outer.body if isinstance(i_, ast.If) and
               isinstance(count, ast.Name) and all(
                   any(isinstance(a_, ast.Assign) and
                       len(a_.targets) == 1 and
                       isinstance(a_.targets[0], ast.Name) and
                       a_.targets[0].id == count.id for a_ in br)
                   for br in (i_.body, i_.orelse))]
        if len(ifs) != 1:
            return
        an = [a_ for a_ in T.cfg.nodes if a_.kind == "assume" and
              a_.ast is ifs[0].test and a_.polarity]
        if len(an) != 1:
            return
        c_, pol_ = T.cond(an[0].ast, an[0], True)
        for v_ in (True, False):
            HT = T.under((c_, v_ == pol_))
            cv = plain(HT.term(count, HT.cfg.loop_head[id(inner)]))
            if any(st_[0] in ("mu", "phi", "rec", "opaque")
                   for st_ in subterms(cv)):
                return
            cases.append(((plain(c_), v_ == pol_), cv))

    def at(t_, h_, k_):
        # (the word number first: its own term mentions the height)
        t_ = _replace_t(t_, K, ("const", k_))
        return eval_closed(_replace_t(t_, Hh, ("const", h_)))
    try:
        for h_ in range(1, 256):
            for k_ in range((h_ + 7) // 8):
                got = None
                for cond_, val_ in cases:
                    if cond_ is None or bool(at(cond_[0], h_, k_)) == \
                            cond_[1]:
                        got = at(val_, h_, k_)
                        break
                want = min(8, h_ - 8 * k_)
                if got != want:
                    rep.bad("C14-R2", inst, "entries per word",
                            "for a machine %d chips high, word %d of a "
                            "column is decoded into %r entries; it holds "
                            "%d (min(8, height - 8 * word)): rows %d..%d of "
                            "every column are %s" % (
                                h_, k_, got, want, 8 * k_,
                                8 * k_ + want - 1,
                                "missing from the table" if (got or 0) < want
                                else "followed by rows that do not exist"),
                            inner)
                    return
    except AnalysisError:
        return
    rep.ok("C14-R2", inst, "word k of a column of height h is decoded into "
           "min(8, h - 8k) entries (folded for h = 1..255)", inner)


def _replace_t(t, old, new):
    if t == old:
        return new
    if not isinstance(t, tuple) or not t or t[0] == "const":
        return t
    return tuple(_replace_t(x, old, new) if isinstance(x, tuple) else x
                 for x in t)


def _p2p_stream(program, folder, rep, fn):
    """The word-by-word form of the column decode (a buffer that is peeled
    four bytes at a time).  Other forms (e.g. unpacking the whole column and
    indexing it) are not judged by this rule."""
    inst = qual(fn)
    mod = fn._module
    fl = Flow(fn, consts=None)
    wl = [n for n in ast.walk(fn) if isinstance(n, ast.While)]
    if len(wl) != 1:
        raise AnalysisError("the column is not decoded by a word-peeling "
                            "while loop")
    w = wl[0]
    heads = tails = None
    for s_ in ast.walk(w):
        if isinstance(s_, ast.Subscript) and isinstance(s_.slice, ast.Slice):
            lo = unparse(s_.slice.lower) if s_.slice.lower else ""
            hi = unparse(s_.slice.upper) if s_.slice.upper else ""
            if (lo, hi) == ("", "4"):
                heads = s_
            if (lo, hi) == ("4", ""):
                tails = s_
    ups = [c for c in calls_in(w, ("unpack", "unpack_from"))]
    fors = [n for n in ast.walk(w) if isinstance(n, ast.For)]
    if not (isinstance(w.test, ast.Compare) and len(w.test.ops) == 1 and
            isinstance(w.test.ops[0], (ast.Lt, ast.Gt)) and len(fors) == 1
            and len(ups) == 1):
        raise AnalysisError("the column is not decoded by a word-peeling "
                            "while loop")
    oks = False
    if heads is not None and tails is not None:
        bufv = chain(tails.value)
        back = any(d.var == bufv and _inside(d.node.ast, w) and
                   d.mode in ("assign", "unpack") for d in fl.defs)
        src = chain(ups[0].args[1])
        hd = [d for d in fl.defs if d.var == src and _inside(d.node.ast, w)]
        oks = back and chain(heads.value) == bufv and len(hd) == 1 and \
            folder.eval(ups[0].args[0], {}, mod) == "<I" and \
            call_name(ups[0])[0] == "unpack"
    lt = isinstance(w.test.ops[0], ast.Lt)
    row = chain(w.test.left if lt else w.test.comparators[0])
    hexp = unparse(w.test.comparators[0] if lt else w.test.left)
    okm = row is not None
    f = fors[0]
    # the entries of one word: range(min(8, height - row)), on value terms
    # (range(0, n), the operand order of min and temporaries do not matter)
    TP = Terms(fn)
    it_t = plain(TP.term(f.iter, TP.cfg.loop_head[id(f)]))
    hr_ = plain(TP.term(_wp(ast.parse("%s - %s" % (hexp, row),
                                      mode="eval").body),
                        TP.cfg.loop_head[id(f)]))
    if it_t[0] == "call" and it_t[1] == ("global", "range") and \
            len(it_t[2]) == 1 and it_t[2][0][0] == "ite":
        # ``8 if left >= 8 else left`` is min(8, left)
        _, c_, a_, b_ = it_t[2][0]
        if c_[0] == "cmp" and c_[1] in ("Lt", "LtE", "Gt", "GtE") and \
                set([c_[2], c_[3]]) == set([a_, b_]) and a_ != b_:
            smaller_first = (c_[1] in ("Lt", "LtE")) == (a_ == c_[2])
            if smaller_first:
                it_t = ("call", ("global", "range"),
                        (("call", ("global", "min"), (a_, b_), ()),), ())
    if not (it_t[0] == "call" and it_t[1] == ("global", "range") and
            len(it_t[2]) == 1 and it_t[2][0][0] == "call" and
            it_t[2][0][1] == ("global", "min")):
        # (e.g. the count chosen by an if / else statement: the condition
        # is not part of the value term)
        raise AnalysisError("get_p2p_routing_table: the number of entries "
                            "taken from a word is not range(min(..)) or the "
                            "equivalent conditional expression; that form "
                            "is not analysed")
    okm = okm and sorted(it_t[2][0][2], key=repr) == sorted(
        [("const", 8), hr_], key=repr)
    ev = chain(f.target)
    st = [s_ for s_ in ast.walk(f) if isinstance(s_, ast.Assign)
          and isinstance(s_.targets[0], ast.Subscript)]
    incs = [d for d in fl.defs if d.var == row and _inside(d.node.ast, f)]
    okm = okm and len(st) == 1 and len(incs) == 1
    if okm:
        d = incs[0]
        okm = fl.sym_after(ast.Name(id=row, ctx=ast.Load()), d.node) == \
            fl.sym(ast.Name(id=row, ctx=ast.Load()), d.node) + 1
        key = st[0].targets[0].slice
        okm = okm and isinstance(key, ast.Tuple) and len(key.elts) == 2 and \
            chain(key.elts[1]) == row
        v = st[0].value
        okm = okm and isinstance(v, ast.Call) and \
            unparse(v.func).endswith("P2PTableEntry")
        if okm:
            from ..util import resolve_tmp
            a0 = resolve_tmp(fl, v.args[0], fl.cfg.node_of(st[0]))
            for k in range(8):
                lay = provenance(a0, _const_of(folder, mod, {ev: k}))
                okm = okm and len(lay.pieces) == 1 and (
                    lay.pieces[0].src_lo, lay.pieces[0].n) == (3 * k, 3)
    rep.check(oks, "C14-R2", inst, "each 32-bit word is decoded from the "
              "next four bytes of the column: the buffer advances by 4 per "
              "word", construct="word stream", node=fn,
              fail="the column buffer does not advance by one word per "
                   "decoded word: rows 8.. of a column are decoded from the "
                   "wrong word")
    rep.check(okm, "C14-R2", inst, "entry k of a word is bits 3k+2:3k; at "
              "most min(8, height - row) entries per word; rows advance by "
              "one", construct="entry extraction", node=fn)


def _inside(node, anc):
    n = node
    while n is not None:
        if n is anc:
            return True
        n = getattr(n, "_parent", None)
    return False


def _rng(t):
    return ("elem", ("call", ("global", "range"), (t,), ()))


def r3_sets(program, rep):
    """Membership and enumeration of the system description and of the
    machine model, decided on canonical facts: what is yielded / accepted
    under which conditions, however the tests are nested or staged."""
    si = MC + ":SystemInfo"
    SELF = ("param", "self")
    X, Y = _rng(("attr", SELF, "width")), _rng(("attr", SELF, "height"))
    LINK = ("elem", ("global", "Links"))
    dc = program.get(si + ".dead_chips")
    D = Terms(dc)
    ys = yields(D)
    ok = len(ys) == 1 and ys[0][1] == ("tuple", X, Y) and \
        (mk_cmp("In", ("tuple", X, Y), SELF), False) in ys[0][2]
    rep.check(ok, "C14-R3", si + ".dead_chips", "dead chips = grid minus "
              "the chips present", construct="dead_chips", node=dc)
    dl = program.get(si + ".dead_links")
    L = Terms(dl)
    ys = yields(L)
    E = ("elem", ("items", SELF))
    ok = len(ys) == 1 and ys[0][1] == ("tuple", ("comp", ("comp", E, 0), 0),
                                       ("comp", ("comp", E, 0), 1), LINK) \
        and (mk_cmp("In", LINK, ("attr", ("comp", E, 1), "working_links")),
             False) in ys[0][2]
    rep.check(ok, "C14-R3", si + ".dead_links", "dead links = for every "
              "present chip, all six links minus its working links",
              construct="dead_links", node=dl)
    ct = program.get(si + ".__contains__")
    C = Terms(ct)
    a = ("param", formals(ct)[1])
    ln = ("call", ("global", "len"), (a,), ())
    is2, is3, is4 = [mk_cmp("Eq", ln, ("const", k)) for k in (2, 3, 4)]
    a2 = C._comp(a, 2, -1)
    isl = ("call", ("global", "isinstance"), (a2, ("global", "Links")), ())
    isi = ("call", ("global", "isinstance"),
           (a2, ("attr", ("global", "six"), "integer_types")), ())
    CHIP = ("get", SELF, ("tuple", C._comp(a, 0, -1), C._comp(a, 1, -1)))
    P_ = C._comp(a, 2, -1)
    cases = [
        ("(x, y)", [(is2, True)], None),
        ("(x, y, link)", [(is2, False), (is3, True), (isl, True)],
         {(is_none(CHIP), False),
          (mk_cmp("In", a2, ("attr", CHIP, "working_links")), True)}),
        ("(x, y, p)", [(is2, False), (is3, True), (isl, False), (isi, True)],
         {(is_none(CHIP), False), (mk_cmp("LtE", ("const", 0), P_), True),
          (mk_cmp("Lt", P_, ("attr", CHIP, "num_cores")), True)}),
        ("(x, y, p, state)", [(is2, False), (is3, False), (is4, True)],
         {(is_none(CHIP), False), (mk_cmp("LtE", ("const", 0), P_), True),
          (mk_cmp("Lt", P_, ("attr", CHIP, "num_cores")), True),
          (mk_cmp("Eq", ("item", ("attr", CHIP, "core_states"), P_),
                  C._comp(a, 3, -1)), True)}),
    ]
    for name, hyps, want in cases:
        H = C.under(*hyps)
        paths = truth_paths(H)
        if want is None:
            ok = len(paths) == 1 and any(
                t[0] in ("call", "callv") and t[2] == (a,) and
                "__contains__" in show(t[1]) for t, p in paths[0])
        else:
            got = [frozenset((plain(t), p) for t, p in ps) for ps in paths]
            ok = got == [frozenset((plain(t), p) for t, p in want)]
        rep.check(ok, "C14-R3", qual(ct), "membership of %s holds exactly "
                  "under the documented conditions" % name,
                  construct="SystemInfo contains %s" % name, node=ct)
    # Machine membership / iteration
    mc = program.get(MA + ":Machine.__contains__")
    M = Terms(mc)
    a = ("param", formals(mc)[1])
    ln = ("call", ("global", "len"), (a,), ())
    is2, is3 = [mk_cmp("Eq", ln, ("const", k)) for k in (2, 3)]
    x_, y_, l_ = [M._comp(a, i, -1) for i in range(3)]
    chip_ok = {(mk_cmp("LtE", ("const", 0), x_), True),
               (mk_cmp("Lt", x_, ("attr", SELF, "width")), True),
               (mk_cmp("LtE", ("const", 0), y_), True),
               (mk_cmp("Lt", y_, ("attr", SELF, "height")), True),
               (mk_cmp("In", ("tuple", x_, y_),
                       ("attr", SELF, "dead_chips")), False)}
    link_ok = {(mk_cmp("In", ("tuple", x_, y_), SELF), True),
               (mk_cmp("In", ("tuple", x_, y_, l_),
                       ("attr", SELF, "dead_links")), False)}

    def norm(ps, arity):
        # a tuple rebuilt from all components of the argument is the argument
        out = set()
        for t, p in ps:
            t = plain(t)
            out.add((t, p))
        return frozenset(out)
    ok = True

    def variants(want, whole):
        """The expected facts, with the tuple of all components of the
        argument written either way (as a tuple or as the argument)."""
        alt = set()
        for t, p in want:
            if t[0] == "cmp" and t[2] == whole:
                t = (t[0], t[1], a, t[3])
            alt.add((t, p))
        return [norm(want, 0), norm(alt, 0)]
    for hyps, want, whole in (
            ([(is2, True)], chip_ok, ("tuple", x_, y_)),
            ([(is2, False), (is3, True)], link_ok, ("tuple", x_, y_, l_))):
        H = M.under(*hyps)
        got = [norm(ps, 0) for ps in truth_paths(H)]
        ok = ok and len(got) == 1 and got[0] in variants(want, whole)
    rep.check(ok, "C14-R3", qual(mc), "a chip is in the model iff in range "
              "and not dead; a link iff its chip is and the link is not "
              "dead", construct="Machine contains", node=mc)
    it_ = program.get(MA + ":Machine.__iter__")
    I = Terms(it_)
    ys = yields(I)
    ok = len(ys) == 1 and ys[0][1] == ("tuple", X, Y) and \
        (mk_cmp("In", ("tuple", X, Y), SELF), True) in ys[0][2]
    rep.check(ok, "C14-R3", qual(it_), "__iter__ yields exactly what "
              "__contains__ accepts, over the whole grid",
              construct="Machine __iter__", node=it_,
              fail="Machine.__iter__ does not filter the grid with "
                   "'(x, y) in self': the model's chips no longer equal "
                   "the probed working ones")
    il = program.get(MA + ":Machine.iter_links")
    IL = Terms(il)
    ys = yields(IL)
    TRI = ("tuple", X, Y, LINK)
    ok = len(ys) == 1 and ys[0][1] == TRI
    if ok:
        f = ys[0][2]
        ok = (mk_cmp("In", TRI, SELF), True) in f or (
            (mk_cmp("In", ("tuple", X, Y), SELF), True) in f and
            (mk_cmp("In", TRI, ("attr", SELF, "dead_links")), False) in f)
    rep.check(ok, "C14-R3", qual(il), "iter_links yields exactly what "
              "__contains__ accepts, over the whole grid",
              construct="Machine iter_links", node=il,
              fail="Machine.iter_links does not filter with '(x, y, link) "
                   "in self': the model's links no longer equal the probed "
                   "working ones (e.g. links of dead chips are listed)")
    gi = program.get(MA + ":Machine.__getitem__")
    G = Terms(gi)
    xy = ("param", formals(gi)[1])
    rets = [(G.cfg.node_of(r), G.term(r.value)) for r in returns_of(gi)
            if r.value is not None]
    ok = len(rets) == 1 and rets[0][1] == (
        "get", ("attr", SELF, "chip_resource_exceptions"), xy,
        ("attr", SELF, "chip_resources")) and \
        (mk_cmp("In", xy, SELF), True) in G.all_facts(rets[0][0])
    rep.check(ok, "C14-R3", qual(gi),
              "a chip's resources are its exception entry, else the "
              "defaults; dead chips raise", construct="Machine getitem",
              node=gi)
    rep.floor("C14-R3", 10)


def r4_machine(program, rep):
    fn = program.get(PU + ":build_machine")
    inst = qual(fn)
    T = Terms(fn)
    ps = formals(fn)
    SI = ("param", ps[0])
    r = [x for x in returns_of(fn) if x.value is not None]
    if len(r) != 1 or not isinstance(r[0].value, ast.Call):
        raise AnalysisError("build_machine: return shape")
    rn = T.cfg.node_of(r[0])
    kw = {k.arg: T.term(k.value, rn) for k in r[0].value.keywords}
    need = ("width", "height", "chip_resources", "chip_resource_exceptions",
            "dead_chips", "dead_links")
    if not all(k in kw for k in need):
        raise AnalysisError("build_machine: Machine(...) keywords")
    attr = {("param", ps[1]): "num_cores",
            ("param", ps[2]): "largest_free_sdram_block",
            ("param", ps[3]): "largest_free_sram_block"}
    cr = kw["chip_resources"]
    defaults = {}
    if cr[0] == "new" and cr[2][0] == "dict":
        defaults = dict(cr[2][1])
    else:
        raise AnalysisError("build_machine: the default resources are not "
                            "given as a dictionary display; that form is "
                            "not analysed")
    okd = set(defaults) == set(attr)
    INFOV = ("elem", ("values", SI))
    INFOI = ("comp", ("elem", ("items", SI)), 1)
    running = {}
    for res, val in defaults.items():
        field = attr.get(res)
        found = False
        if val[0] == "mu":
            # a running maximum: starts at 0, every chip's quantity is folded
            # in with max()
            alts = [plain(x) for x in alternatives(val)]

            def fold_ok(x):
                if x in (("const", 0), ("rec",)) or x == plain(val):
                    return True
                if x[0] == "call" and x[1] == ("global", "max") and \
                        len(x[2]) == 2 and not x[3]:
                    a_, b_ = x[2]
                    for u, v in ((a_, b_), (b_, a_)):
                        if v in (("attr", INFOV, field),
                                 ("attr", INFOI, field)) and fold_ok(u):
                            return True
                return False
            if alts and all(fold_ok(x) for x in alts) and any(
                    x[0] == "call" for x in alts):
                found = True
                running[res] = val
        for alt in alternatives(val):
            for st_ in subterms(plain(alt)):
                if st_[0] == "call" and st_[1] == ("global", "max") and \
                        len(st_[2]) == 1 and st_[2][0][0] in (
                            "genexp", "listcomp") and \
                        st_[2][0][1] == ("attr", INFOV, field) and \
                        st_[2][0][2] == ((("values", SI), ()),):
                    found = True
        maxes = [st_ for alt in alternatives(val)
                 for st_ in subterms(plain(alt))
                 if st_[0] == "call" and st_[1] == ("global", "max")]
        if not found and (val[0] == "mu" or not maxes or any(
                not (len(m_[2]) == 1 and m_[2][0][0] in ("genexp",
                                                         "listcomp"))
                for m_ in maxes)):
            raise AnalysisError("build_machine: the machine-wide default of "
                                "a resource is not computed by one max(...) "
                                "over the chips (e.g. a running maximum); "
                                "that form is not analysed")
        okd = okd and found
    rep.check(okd, "C14-R4", inst, "default chip resources aggregate "
              "num_cores / largest free SDRAM / SRAM over all chips into the "
              "core / sdram / sram resources", construct="defaults",
              node=fn)
    built = T.built_map(kw["chip_resource_exceptions"])
    oke = okv = False
    if not built:
        raise AnalysisError("build_machine: how the exceptions are "
                            "collected is not analysed in this form")
    if built and len(built) == 1 and okd:
        it, key, val, cond = built[0]
        E = ("elem", ("items", SI))
        INFO = ("comp", E, 1)
        oke = it == ("items", SI) and cond is not None and cond[0] == "or"
        if oke:
            want = set()
            for res, dv in defaults.items():
                c = mk_cmp("NotEq", ("attr", INFO, attr[res]), plain(dv))
                want.add(c)
            oke = set(plain(cond)[1:]) == want
        pv = plain(val)
        okv = key == ("comp", E, 0) and pv[0] == "dict" and dict(pv[1]) == {
            res: ("attr", INFO, a_) for res, a_ in attr.items()}
    if oke and running:
        # compared with the final maxima: no update of a running maximum can
        # follow the comparison
        stores_ = [x for x in stores(T)
                   if x[2] == kw["chip_resource_exceptions"]]
        for res, mu in running.items():
            for i in mu[1].ids:
                bn = T.binds[i].node
                if any(T.cfg.reaches(x[0], bn) for x in stores_) and \
                        T.binds[i].mode != "param" and \
                        plain(T._bind_term(T.binds[i])) != ("const", 0):
                    oke = False
    rep.check(oke, "C14-R4", inst, "a chip is an exception iff any of its "
              "three quantities differs from the very value used as the "
              "default", construct="exception test", node=fn,
              fail="the exception filter does not compare each quantity "
                   "with the default actually used: a chip that differs can "
                   "silently get the default resources")
    rep.check(okv, "C14-R4", inst, "each exception lists the chip's own "
              "cores, SDRAM and SRAM under the right resource",
              construct="exception values", node=fn)
    okg = kw["width"] == ("attr", SI, "width") and \
        kw["height"] == ("attr", SI, "height") and \
        plain(kw["dead_chips"]) == ("call", ("global", "set"), ((
            "call", ("attr", SI, "dead_chips"), (), ()),), ()) and \
        plain(kw["dead_links"]) == ("call", ("global", "set"), ((
            "call", ("attr", SI, "dead_links"), (), ()),), ())
    rep.check(okg, "C14-R4", inst, "size, dead chips and dead links come "
              "from the same system description", construct="geometry",
              node=fn)
    rep.floor("C14-R4", 4)


def _bitset(term):
    """(iterable term, index term, [(condition, polarity)]) when ``term`` is
    the bit mask with bit i set for the selected i of an iterable: either
    ``sum(1 << i for ... if c)`` or a mask that starts at 0 and has
    ``1 << i`` or-ed in by a loop under a test."""
    t = plain(term)
    m = match(("call", ("global", "sum"),
               (("genexp", ("binop", "LShift", ("const", 1), V("i")),
                 ((V("it"), V("conds")),)),), ()), t)
    if m is not None:
        cs = []
        for c in m["conds"]:
            pol = True
            while c[0] == "not":
                c, pol = c[1], not pol
            cs.append((c, pol))
        return m["it"], m["i"], cs
    if term[0] != "mu":
        return None
    mu = term[1]
    T = mu.T
    res = None
    for i in mu.ids:
        b_ = T.binds[i]
        v = T._bind_term(b_)
        if v == ("const", 0):
            continue
        if v[0] == "binop" and v[1] == "BitOr":
            bit = [x for x in (v[2], v[3]) if x[0] == "binop" and
                   x[1] == "LShift" and x[2] == ("const", 1)]
            lp = b_.node.ast
            while lp is not None and not isinstance(lp, ast.For):
                lp = getattr(lp, "_parent", None)
            if len(bit) == 1 and lp is not None:
                head = T.cfg.loop_head[id(lp)]
                conds = [T.cond(a.ast, a, a.polarity) for a in T.cfg.nodes
                         if a.kind == "assume" and a.ast is not None and
                         _inside(a.ast, lp) and
                         T.cfg.dominates(a, b_.node)]
                res = (plain(T.term(lp.iter, head)), plain(bit[0][3]),
                       [(plain(c), p_) for c, p_ in conds])
                continue
        return None
    return res


def r5_reservations(program, rep):
    fn = program.get(PU + ":build_core_constraints")
    inst = qual(fn)
    T = Terms(fn)
    ps = formals(fn)
    SI = ("param", ps[0])
    mn = program.get(PU + ":_get_minimal_core_reservations")
    from ..util import bind
    batches = []
    for c in calls_in(fn, "_get_minimal_core_reservations"):
        n = T.cfg.node_containing(c)
        batches.append((c, n, {k: T.term(v, n)
                               for k, v in bind(c, mn).items()}))
    ok = len(batches) == 2
    rep.check(ok, "C14-R5", inst, "one global and one per-chip batch of "
              "reservations", construct="reservation batches %d" %
              len(batches), node=fn)
    if not ok:
        return
    names = formals(mn)          # core_resource, cores, chip
    glob = [b_ for b_ in batches if names[2] not in b_[2]]
    loc = [b_ for b_ in batches if names[2] in b_[2]]
    IDLE = ("attr", ("global", "AppState"), "idle")
    okg = okl = okm = False
    local_read = False
    GLOBAL = None

    def truth(c_):
        """(term, polarity) with ``t != 0`` / ``t == 0`` read as the truth
        value of t."""
        t_, p_ = c_
        pt = plain(t_)
        if pt[0] == "cmp" and pt[1] in ("Eq", "NotEq") and \
                ("const", 0) in (pt[2], pt[3]):
            inner = pt[3] if pt[2] == ("const", 0) else pt[2]
            inner_t = t_[3] if pt[2] == ("const", 0) else t_[2]
            if inner[0] == "binop" and inner[1] == "BitAnd":
                return (inner_t, p_ if pt[1] == "NotEq" else not p_)
        return c_
    if len(glob) == 1:
        built = T.filtered(glob[0][2][names[1]])
        if not built:
            raise AnalysisError("build_core_constraints: the cores reserved "
                                "everywhere are selected in a form that is "
                                "not analysed")
        if built and len(built) == 1:
            it, elt, conds = built[0]
            rng = ("call", ("global", "range"), (("const", 18),), ())
            conds = [truth(c_) for c_ in conds]
            okg = plain(it) == rng and elt == ("elem", it) and \
                len(conds) == 1 and conds[0][1] is True
            if okg:
                bt = bit_test(conds[0][0])
                okg = bt is not None and bt[1] == elt
                GLOBAL = bt[0] if okg else None
    if len(loc) == 1 and GLOBAL is not None:
        E = ("elem", ("items", SI))
        CS = ("attr", ("comp", E, 1), "core_states")
        built = T.filtered(loc[0][2][names[1]])
        if built and len(built) == 1:
            it, elt, conds = built[0]
            okl = plain(it) == ("call", ("global", "enumerate"), (CS,), ()) \
                and elt == ("index", CS) and len(conds) == 2 and \
                loc[0][2][names[2]] == ("comp", E, 0)
            if okl:
                idle = [c for c in conds
                        if c == (mk_cmp("Eq", ("elem", CS), IDLE), False)]
                rest = [truth(c) for c in conds if c not in idle]
                okl = len(idle) == 1 and len(rest) == 1 and \
                    rest[0][1] is False
                if okl:
                    local_read = True
                    bt = bit_test(rest[0][0])
                    okl = bt is not None and bt[1] == ("index", CS) and \
                        bt[0] == GLOBAL
    rep.check(okg, "C14-R5", inst, "global reservations = cores whose bit is "
              "set in the all-chips mask (single-bit test of that core)",
              construct="global filter", node=fn)
    if not okl and not local_read:
        raise AnalysisError("build_core_constraints: the per-chip "
                            "reservations are not built by filtering the "
                            "chip's core states in the form analysed")
    rep.check(okl, "C14-R5", inst, "per-chip reservations = that chip's "
              "non-idle cores whose bit is NOT set in the global mask "
              "(single-bit test of the same core number): the two sets "
              "partition the busy cores", construct="local filter", node=fn,
              fail="the per-chip filter does not test exactly bit <core> of "
                   "the global mask: a busy core can be left without any "
                   "reservation (or reserved twice)")
    # the mask: AND over chips of the chip's busy-core bits
    if GLOBAL is not None:
        CSV = ("attr", ("elem", ("values", SI)), "core_states")
        want_busy = (("call", ("global", "enumerate"), (CSV,), ()),
                     ("index", CSV),
                     [(mk_cmp("Eq", ("elem", CSV), IDLE), False)])
        okm = True
        n_and = n_busy = 0

        def is_busy(x):
            return _bitset(x) == want_busy

        def walk(x, seen):
            nonlocal okm, n_and, n_busy
            if x[0] == "mu":
                if x[1] in seen:
                    return
                seen.add(x[1])
                if is_busy(x):
                    n_busy += 1
                    return
            if x[0] in ("mu", "phi", "ite"):
                for y in one_level(x):
                    walk(y, seen)
                return
            if x in (("const", 0), ("const", None), ("rec",)):
                return
            if is_busy(x):
                n_busy += 1
                return
            if x[0] == "binop" and x[1] == "BitAnd":
                n_and += 1
                walk(x[2], seen)
                walk(x[3], seen)
                return
            okm = False
            unknown.append(x)
        unknown = []
        walk(GLOBAL, set())
        if unknown:
            raise AnalysisError("build_core_constraints: the all-chips mask "
                                "is built from %s, a form these rules do "
                                "not read" % show(unknown[0])[:50])
        okm = okm and n_and >= 1 and n_busy >= 1
    rep.check(okm, "C14-R5", inst, "global mask = AND over all chips of the "
              "chip's non-idle-core bits (0 for an empty machine)",
              construct="global mask", node=fn)
    rep.guard("C14-R5", _range_merging, program, rep, mn)
    rep.floor("C14-R5", 4)


def _range_merging(program, rep, mn):
    """The range-merging generator, whatever holds the open range (a slice
    object, or its two bounds in two variables): by cases on 'is there an
    open range' and 'does the core follow it directly', the new open range
    and what is yielded are compared with first / extend / emit-and-restart."""
    def mv(t):
        # a merged variable is named by the variable (the case hypotheses
        # prune its definitions differently)
        if not isinstance(t, tuple):
            return t
        if t and t[0] == "mu":
            return ("muvar", t[1].var)
        return tuple(mv(x) for x in t)

    def pl(t):
        return mv(plain(t))

    T = Terms(mn)
    cfg = T.cfg
    ps = formals(mn)
    RES, CORES, CHIP = (("param", p_) for p_ in ps[:3])
    loops = [lp for lp in ast.walk(mn) if isinstance(lp, ast.For) and
             T.term(lp.iter, cfg.loop_head[id(lp)]) == CORES]
    if len(loops) != 1:
        raise AnalysisError("range merging: one loop over the cores")
    lp = loops[0]
    head = cfg.loop_head[id(lp)]
    CORE = T._tag(lp.iter, ("elem", CORES))
    NEXT = (("binop", "Add", CORE, ("const", 1)),
            ("binop", "Add", ("const", 1), CORE))
    ys = []
    for y in ast.walk(mn):
        if isinstance(y, ast.Yield) and y.value is not None:
            n = cfg.node_containing(y)
            t = T.term(y.value, n)
            if not (t[0] in ("call", "callv") and
                    t[1] == ("global", "ReserveResourceConstraint") and
                    len(t[2]) == 3 and not t[3]):
                raise AnalysisError("range merging: what is yielded")
            ys.append((y, n, t[2]))
    final = [x for x in ys if not _inside(x[0], lp)]
    inner = [x for x in ys if _inside(x[0], lp)]
    if not final and inner:
        # the loop runs over exactly the cores given: the range still open
        # after the last core can only be emitted after the loop
        rep.check(False, "C14-R5", qual(mn), "the last range is emitted",
                  construct="range merging", node=mn,
                  fail="nothing is yielded after the loop over the cores: "
                       "the last run of reserved cores is never emitted")
        return
    if len(final) != 1 or not inner:
        raise AnalysisError("range merging: yields")
    okargs = all(a[0] == RES and a[2] == CHIP for _, _, a in ys)
    # the state: a slice object, or two bounds
    R = final[0][2][1]
    pr = pl(R)
    if pr[0] == "call" and pr[1] == ("global", "slice") and len(pr[2]) == 2:
        form = "pair"
        A, B = R[2] if R[0] != "new" else R[2][2]
        if A[0] != "mu" or B[0] != "mu":
            raise AnalysisError("range merging: the open range's bounds")
        svars = [A[1].var, B[1].var]
    elif R[0] == "mu":
        form = "obj"
        svars = [R[1].var]
    else:
        raise AnalysisError("range merging: the open range")

    # the case analysis below reads one update of the state per pass: a
    # state variable re-bound and then tested / bound again within one pass
    # (``start = None`` ... ``if start is None: start = core``) is a form it
    # does not follow
    for v_ in svars:
        bs_ = [b_ for b_ in T.binds if b_.var == v_ and b_.mode not in (
            "param", "iter") and _inside(b_.node.ast, lp)]
        for a_ in bs_:
            for c_ in bs_:
                if a_ is not c_ and cfg.reaches(a_.node, c_.node,
                                                avoid=[head]):
                    raise AnalysisError(
                        "range merging: %s is bound twice within one pass "
                        "of the loop (lines %d and %d); the case analysis "
                        "reads one update per pass" % (
                            v_, a_.node.lineno or 0, c_.node.lineno or 0))

    def at_head(v):
        return T.term(ast.Name(id=v, ctx=ast.Load()), head)
    S0 = [at_head(v) for v in svars]
    if form == "obj":
        LO0, HI0 = ("attr", S0[0], "start"), ("attr", S0[0], "stop")
    else:
        LO0, HI0 = S0
    none = [(is_none(x), True) for x in S0]
    some = [(is_none(x), False) for x in S0]
    follows = mk_cmp("Eq", HI0, CORE)

    def as_range(t):
        t = pl(t)
        if t[0] == "call" and t[1] == ("global", "slice") and \
                len(t[2]) == 2 and not t[3]:
            return t[2]
        return None

    def case(hyps):
        """(new (lo, hi), [yielded (lo, hi)]) on the iterations where the
        hypotheses hold."""
        H = T.under(*hyps)
        new = {}
        for b_ in T.binds:
            if b_.var in svars and b_.mode != "param" and \
                    _inside(b_.node.ast, lp) and b_.mode != "iter" and \
                    H.live(b_.node):
                if b_.var in new:
                    raise AnalysisError("range merging: two updates on one "
                                        "path")
                new[b_.var] = H._bind_term(b_)
        if form == "obj":
            r = as_range(new[svars[0]]) if svars[0] in new else \
                (pl(LO0), pl(HI0))
            if r is None:
                raise AnalysisError("range merging: the new open range")
        else:
            r = (pl(new.get(svars[0], LO0)), pl(new.get(svars[1], HI0)))
        out = []
        for y, n, a in inner:
            if H.live(n):
                a1 = H.term(y.value.args[1], n) if isinstance(
                    y.value, ast.Call) and len(y.value.args) == 3 else a[1]
                if form == "obj" and pl(a1) == pl(S0[0]):
                    out.append((pl(LO0), pl(HI0)))
                else:
                    out.append(as_range(a1))
        return r, out
    old = (pl(LO0), pl(HI0))
    c1, y1 = case(none)
    c2, y2 = case(some + [(follows, True)])
    c3, y3 = case(some + [(follows, False)])
    fresh = [(pl(CORE), pl(n_)) for n_ in NEXT]
    ok = c1 in fresh and not y1
    ok = ok and c2 in [(old[0], pl(n_)) for n_ in NEXT] and not y2
    ok = ok and c3 in fresh and y3 == [old]
    # the last range is emitted whenever there is one
    fy, fn_, fa = final[0]
    ff = T.all_facts(fn_)
    okf = any(x in ff for x in some) and len([x for x in ff if x not in
                                              some]) == 0
    if form == "obj":
        okf = okf and pl(fa[1]) == pl(S0[0])
    # nothing skips a core
    # (a ``continue`` ends the handling of one core - what was done for it
    # is what the three cases above compare; only leaving the loop skips
    # cores)
    no_skip = not any(isinstance(x, (ast.Break, ast.Return))
                      for x in ast.walk(lp))
    # before the first core there is no open range
    init = all(alt == ("const", None) for v in svars
               for alt in [T.term(ast.Name(id=v, ctx=ast.Load()),
                                  cfg.stmt_node[id(lp)])])
    rep.check(ok and okf and okargs and no_skip and init, "C14-R5", qual(mn),
              "consecutive cores extend the current range, a gap emits it "
              "and starts a new one, the last range is emitted",
              construct="range merging", node=mn,
              fail="the reserved ranges are not the maximal runs of "
                   "consecutive cores: first core -> %s, following core -> "
                   "%s yields %s, gap -> %s yields %s" % (
                       show(("tuple",) + tuple(c1))[:60],
                       show(("tuple",) + tuple(c2))[:60], len(y2),
                       show(("tuple",) + tuple(c3))[:60], len(y3)))


def _parse_struct(text, name):
    """Field names of one struct in sark.struct."""
    fields = []
    cur = None
    for line in text.splitlines():
        line = line.split("#")[0].strip()
        if not line:
            continue
        m = re.match(r"name\s*=\s*(\w+)", line)
        if m:
            cur = m.group(1)
            continue
        if re.match(r"(size|base)\s*=", line):
            continue
        if cur == name:
            fields.append(re.sub(r"\[\d+\]$", "", line.split()[0]))
    return fields


def r6_version(program, rep):
    """The software version reported by a chip, by cases on the encoding:
    what the three numbers and the label are read from."""
    fn = program.get("rig.machine_control.common:"
                     "unpack_sver_response_version")
    inst = qual(fn)
    T = Terms(fn)
    PKT = ("param", formals(fn)[0])
    FIELD = ("binop", "RShift", ("attr", PKT, "arg2"), ("const", 16))
    TEXT = ("call", ("attr", ("attr", PKT, "data"), "decode"),
            (("const", "utf-8"),), ())
    Z = ("const", "\0")

    def rstrip(t):
        return ("call", ("attr", t, "rstrip"), (Z,), ())
    rets = [r for r in returns_of(fn) if r.value is not None]
    got = {}
    for pol in (True, False):
        H = T.under((mk_cmp("Eq", FIELD, ("const", 0xFFFF)), pol))
        vals = [plain(H.term(r.value, T.cfg.node_of(r))) for r in rets
                if H.live(T.cfg.node_of(r))]
        if len(vals) != 1 or vals[0][0] != "tuple" or len(vals[0]) != 4:
            raise AnalysisError("unpack_sver_response_version: return shape")
        got[pol] = vals[0]
    name, ver, lab = got[False][1:]
    okl = name == rstrip(TEXT) and lab == ("const", "") and ver == (
        "tuple", ("binop", "FloorDiv", FIELD, ("const", 100)),
        ("binop", "Mod", FIELD, ("const", 100)), ("const", 0))
    rep.check(okl, "C14-R6", inst, "legacy encoding: version = (field // "
              "100, field % 100, 0) of arg2's top half, no label",
              construct="legacy version", node=fn)
    name, ver, lab = got[True][1:]
    PART = ("call", ("attr", TEXT, "partition"), (Z,), ())
    M = ("call", ("attr", ("global", "VERSION_NUMBER_REGEX"), "match"),
         (rstrip(("comp", PART, 2)),), ())

    def grp(k):
        return ("call", ("attr", M, "group"), (("const", k),), ())
    matches = [st_ for st_ in subterms(("tuple", ver, lab))
               if st_[0] == "call" and st_[1][0] == "attr" and
               st_[1][2] == "match" and
               st_[1][1] == ("global", "VERSION_NUMBER_REGEX")]
    if not matches:
        # (a merged label hides the match: look through the alternatives)
        matches = [st_ for a_ in alternatives(T.under((mk_cmp(
            "Eq", FIELD, ("const", 0xFFFF)), True)).term(
                rets[-1].value, T.cfg.node_of(rets[-1])))
            for st_ in subterms(plain(a_))
            if st_[0] == "call" and st_[1][0] == "attr" and
            st_[1][2] == "match"]
    if not matches:
        raise AnalysisError("unpack_sver_response_version: where the "
                            "version text is matched was not found")
    oks = name in (rstrip(("comp", PART, 0)), ("comp", PART, 0)) and \
        all(m_ == M for m_ in matches)
    rep.check(oks, "C14-R6", inst, "semantic-version encoding: the text "
              "after the name's NUL, with trailing NULs (only) removed, is "
              "matched as major.minor.patch[label]",
              construct="semantic version", node=fn,
              fail="the version text is not (data after the first NUL)."
                   "rstrip(NUL) matched by VERSION_NUMBER_REGEX with the "
                   "numbers from groups 1-3 and the label from group 4: a "
                   "version that is not NUL-terminated (or padded) is "
                   "reported wrongly")
    import re as _re
    # the regular expression itself
    src = None
    for st in fn._module.tree.body:
        if isinstance(st, ast.Assign) and chain(st.targets[0]) == \
                "VERSION_NUMBER_REGEX" and isinstance(st.value, ast.Call) \
                and st.value.args and isinstance(st.value.args[0],
                                                 ast.Constant):
            src = st.value.args[0].value
    okre = False
    if isinstance(src, str):
        rx = _re.compile(src)
        okre = all(bool(rx.match(s_)) == w_ for s_, w_ in (
            ("1.2.3", True), ("10.20.30-dev", True), ("1.2", False),
            ("1.2.3.4", True), ("a.b.c", False), ("", False))) and \
            rx.match("12.34.56-x").groups() == ("12", "34", "56", "-x")
    rep.check(okre, "C14-R6", inst, "VERSION_NUMBER_REGEX captures major, "
              "minor, patch and the rest", construct="version regex",
              node=fn)


def r6_status(program, folder, rep):
    text = program.read_data("rig/boot/sark.struct").decode("latin-1")
    vcpu = _parse_struct(text, "vcpu")
    if len(vcpu) < 20:
        raise AnalysisError("sark.struct: vcpu struct not found")
    fn = program.get(CTRL + ".get_processor_status")
    inst = qual(fn)
    keys = set(vcpu)
    bad = []
    # the dictionary handed to ProcessorStatus(**<it>), whatever it is called
    svar = None
    for c_ in calls_in(fn, "ProcessorStatus"):
        for k_ in c_.keywords:
            if k_.arg is None and isinstance(k_.value, ast.Name):
                svar = k_.value.id
    if svar is None:
        raise AnalysisError("get_processor_status: ProcessorStatus(**<dict>) "
                            "not found")

    def is_var(e):
        return isinstance(e, ast.Name) and e.id == svar

    def names_of(fmt_expr, loopvar, values):
        """The strings a formatted name takes: '<..>{}'.format(i),
        '<..>%d' % i, f'<..>{i}' for i over ``values``."""
        e = fmt_expr
        if isinstance(e, ast.Constant) and isinstance(e.value, str):
            return [e.value]
        if isinstance(e, ast.Call) and isinstance(e.func, ast.Attribute) and \
                e.func.attr == "format" and isinstance(
                    e.func.value, ast.Constant) and len(e.args) == 1 and \
                isinstance(e.args[0], ast.Name) and e.args[0].id == loopvar:
            return [e.func.value.value.format(v) for v in values]
        if isinstance(e, ast.BinOp) and isinstance(e.op, ast.Mod) and \
                isinstance(e.left, ast.Constant) and isinstance(
                    e.right, ast.Name) and e.right.id == loopvar:
            return [e.left.value % v for v in values]
        if isinstance(e, ast.JoinedStr) and all(
                isinstance(x, ast.Constant) or (
                    isinstance(x, ast.FormattedValue) and
                    isinstance(x.value, ast.Name) and
                    x.value.id == loopvar and x.format_spec is None and
                    x.conversion == -1) for x in e.values):
            return ["".join(x.value if isinstance(x, ast.Constant) else
                            str(v) for x in e.values) for v in values]
        raise AnalysisError("get_processor_status: a field name is built in "
                            "a form that is not analysed (%s)" % unparse(e))

    def pop_key(k):
        if k not in keys:
            bad.append(k)
        keys.discard(k)

    def pops_in(expr, loopvar=None, values=()):
        for c in ast.walk(expr):
            if isinstance(c, ast.Call) and isinstance(
                    c.func, ast.Attribute) and c.func.attr == "pop" and \
                    is_var(c.func.value) and c.args:
                for k in names_of(c.args[0], loopvar, values):
                    pop_key(k)
            elif isinstance(c, ast.Subscript) and is_var(c.value) and \
                    isinstance(c.ctx, ast.Load):
                if isinstance(c.slice, ast.Constant):
                    if c.slice.value not in keys:
                        bad.append(c.slice.value)
                else:
                    raise AnalysisError("get_processor_status: the status "
                                        "dictionary is read under a computed "
                                        "key")
    started = False
    for st in fn.body:
        mentions = any(is_var(x) for x in ast.walk(st))
        if not mentions:
            continue
        if not started:
            # the statement that creates the dictionary
            started = True
            if isinstance(st, ast.Assign) and is_var(st.targets[0]):
                continue
        if isinstance(st, ast.Assign) and len(st.targets) == 1 and \
                isinstance(st.targets[0], ast.Subscript) and \
                is_var(st.targets[0].value) and \
                isinstance(st.targets[0].slice, ast.Constant):
            v = st.value
            if isinstance(v, (ast.ListComp, ast.GeneratorExp)) and \
                    len(v.generators) == 1 and isinstance(
                        v.generators[0].target, ast.Name):
                rng = list(folder.eval(v.generators[0].iter, {}, fn._module))
                pops_in(v.elt, v.generators[0].target.id, rng)
            else:
                pops_in(v)
            keys.add(st.targets[0].slice.value)
        elif isinstance(st, ast.Assign) and not any(
                is_var(x) for t_ in st.targets for x in ast.walk(t_)):
            pops_in(st.value)
        elif isinstance(st, ast.Expr):
            pops_in(st.value)
        elif isinstance(st, ast.Delete) and all(
                isinstance(t_, ast.Subscript) and is_var(t_.value) and
                isinstance(t_.slice, ast.Constant) for t_ in st.targets):
            for t_ in st.targets:
                pop_key(t_.slice.value)
        elif isinstance(st, ast.For) and isinstance(
                st.target, ast.Tuple) and len(st.body) == 1 and \
                isinstance(st.body[0], ast.Assign) and \
                isinstance(st.body[0].targets[0], ast.Subscript) and \
                is_var(st.body[0].targets[0].value) and \
                isinstance(st.body[0].targets[0].slice, ast.Name) and \
                isinstance(st.body[0].value, ast.Call) and \
                isinstance(st.body[0].value.func, ast.Attribute) and \
                st.body[0].value.func.attr == "pop" and \
                is_var(st.body[0].value.func.value) and \
                len(st.body[0].value.args) == 1 and \
                isinstance(st.body[0].value.args[0], ast.Name):
            # for <a>, <b> in <literal pairs>: d[<one>] = d.pop(<other>)
            tnames = [e_.id for e_ in st.target.elts
                      if isinstance(e_, ast.Name)]
            newn = st.body[0].targets[0].slice.id
            oldn = st.body[0].value.args[0].id
            if len(tnames) != 2 or {newn, oldn} != set(tnames):
                raise AnalysisError("get_processor_status: rename loop")
            for pair in folder.eval(st.iter, {}, fn._module):
                d_ = dict(zip(tnames, pair))
                pop_key(d_[oldn])
                keys.add(d_[newn])
        elif isinstance(st, ast.Return):
            pass
        else:
            raise AnalysisError("get_processor_status: the status dictionary "
                                "is edited by a statement these rules do not "
                                "read (line %d)" % st.lineno)
    ps_cls = program.get(MC + ":ProcessorStatus")
    fields = folder.eval(ps_cls.bases[0].args[1], {}, fn._module).split()
    rep.check(not bad, "C14-R6", inst, "every per-core status field used "
              "exists in the vcpu struct of sark.struct",
              construct="missing vcpu fields %s" % bad, node=fn)
    rep.check(keys == set(fields), "C14-R6", inst, "after the renames the "
              "decoded keys are exactly ProcessorStatus's fields",
              construct="status keys diff %s" % sorted(
                  keys ^ set(fields)), node=fn)
    t = unparse(fn)
    from ..terms import fold_consts
    SELF = ("param", "self")

    def reads(T_, f_):
        out = []
        for c in ast.walk(f_):
            if isinstance(c, ast.Call) and isinstance(c.func, ast.Attribute) \
                    and c.func.attr == "read" and chain(c.func.value) == \
                    "self":
                try:
                    n_ = T_.cfg.node_containing(c)
                except AnalysisError:
                    continue
                b_ = bind(c, program.get(CTRL + ".read"))
                out.append({k: plain(T_.term(v, n_)) for k, v in b_.items()})
        return out
    # status block of core p
    TS = Terms(fn)
    xs, ys, ps_ = [("param", q) for q in ("x", "y", "p")]
    VSIZE = ("attr", ("item", ("attr", SELF, "structs"), ("const", b"vcpu")),
             "size")
    BASE = ("call", ("attr", SELF, "read_struct_field"),
            (("const", "sv"), ("const", "vcpu_base"), xs, ys), ())
    rs = reads(TS, fn)
    oka = len(rs) == 1
    if oka:
        r_ = rs[0]
        oka = r_.get("address") in (
            ("binop", "Add", BASE, ("binop", "Mult", VSIZE, ps_)),
            ("binop", "Add", BASE, ("binop", "Mult", ps_, VSIZE)),
            ("binop", "Add", ("binop", "Mult", VSIZE, ps_), BASE),
            ("binop", "Add", ("binop", "Mult", ps_, VSIZE), BASE)) and \
            r_.get("length_bytes") == VSIZE and r_.get("x") == xs and \
            r_.get("y") == ys
    rep.check(oka, "C14-R6", inst, "the status block of core p is read from "
              "vcpu_base + size * p, size bytes", construct="status address",
              node=fn)
    # console buffers
    io = program.get(CTRL + ".get_iobuf_bytes")
    TI = Terms(io)
    ix, iy, ip = [("param", q) for q in ("x", "y", "p")]
    ISIZE = ("call", ("attr", SELF, "read_struct_field"),
             (("const", "sv"), ("const", "iobuf_size"), ix, iy), ())
    FIRST = ("call", ("attr", SELF, "read_vcpu_struct_field"),
             (("const", "iobuf"), ix, iy, ip), ())
    rs = reads(TI, io)
    loops = [w_ for w_ in ast.walk(io) if isinstance(w_, ast.While)]
    oki = len(rs) == 1 and len(loops) == 1
    if oki:
        r_ = rs[0]
        ADDR = r_.get("address", ("?",))
        HDR = 16
        oki = ADDR[0] == "mu" and r_.get("length_bytes") in (
            ("binop", "Add", ISIZE, ("const", HDR)),
            ("binop", "Add", ("const", HDR), ISIZE)) and \
            r_.get("x") == ix and r_.get("y") == iy
        if oki:
            DATA = None
            for st_ in [plain(x_) for x_ in one_level(
                    TI.term(ast.Name(id=ADDR[1].var, ctx=ast.Load()),
                            TI.cfg.loop_head[id(loops[0])]))]:
                for sub in subterms(st_):
                    if sub[0] == "call" and sub[1] in ((
                            "attr", ("global", "struct"), "unpack"), (
                            "attr", ("global", "struct"), "unpack_from")) \
                            and len(sub[2]) == 2:
                        DATA = sub
            alts = [plain(x_) for x_ in one_level(ADDR)]
            # unpack('<4I', raw[:16]) or unpack_from('<4I', raw): the first
            # sixteen bytes either way
            from_ = DATA is not None and DATA[1][2] == "unpack_from"
            RAW_ = None
            if DATA is not None and from_:
                RAW_ = DATA[2][1]
            elif DATA is not None and DATA[2][1][0] == "item" and \
                    DATA[2][1][2] == ("slice", ("const", None),
                                      ("const", HDR), ("const", None)):
                RAW_ = DATA[2][1][1]
            oki = FIRST in alts and DATA is not None and \
                DATA[2][0] == ("const", "<4I") and RAW_ is not None and \
                ("comp", DATA, 0) in alts and len(alts) == 2
            # the loop runs while the next pointer is non-zero
            # (the edge of the loop test that enters the body, of either
            # polarity: ``while addr`` / ``while not addr == 0``)
            first_ = TI.cfg.node_of(loops[0].body[0]) if loops[0].body \
                else None
            wn = [n_ for n_ in TI.cfg.nodes if n_.kind == "assume" and
                  not any(_inside(n_.ast, st_) for st_ in loops[0].body)
                  and _inside(n_.ast, loops[0]) and first_ is not None and
                  TI.cfg.dominates(n_, first_)]
            okw_ = False
            if len(wn) == 1:
                ct_, cp_ = TI.cond(wn[0].ast, wn[0], wn[0].polarity)
                okw_ = (plain(ct_), cp_) in (
                    (plain(ADDR), True),
                    (mk_cmp("Eq", plain(ADDR), ("const", 0)), False))
            oki = oki and okw_
            # what is appended: data[16:16 + length]
            if oki:
                RAW = RAW_
                LEN = ("comp", DATA, 3)
                app = []
                grows = 0
                for b_ in TI.binds:
                    if _inside(b_.node.ast, loops[0]) and \
                            b_.mode in ("aug", "assign"):
                        v_ = plain(TI._bind_term(b_))
                        if v_[0] == "binop" and v_[1] == "Add" and \
                                v_[2][0] in ("mu", "phi", "const"):
                            grows += 1
                        if v_[0] == "binop" and v_[1] == "Add" and \
                                v_[3][0] == "item" and v_[3][1] == RAW:
                            app.append(v_[3][2])
                if not grows:
                    raise AnalysisError("get_iobuf_bytes: the text of the "
                                        "blocks is not accumulated with + "
                                        "inside the walk; not analysed")
                oki = app in ([("slice", ("const", HDR), ("binop", "Add", (
                    "const", HDR), LEN), ("const", None))],
                    [("slice", ("const", HDR), ("binop", "Add", LEN, (
                        "const", HDR)), ("const", None))])
    rep.check(oki, "C14-R6", qual(io), "console buffers: read header + "
              "iobuf_size, header '<4I' (next, time, ms, length), take "
              "[16:16+length], follow next until 0",
              construct="iobuf walk", node=io)
    # router counters
    rd = program.get(CTRL + ".get_router_diagnostics")
    TR = Terms(rd)
    rx, ry = [("param", q) for q in ("x", "y")]
    base = folder.name(CONSTS, "SPINNAKER_RTR_BASE")
    nfields = None
    for st_ in ast.walk(rd._module.tree):
        if isinstance(st_, ast.Call) and call_name(st_)[0] == "namedtuple" \
                and len(st_.args) == 2 and \
                isinstance(st_.args[0], ast.Constant) and \
                st_.args[0].value == "RouterDiagnostics":
            v_ = st_.args[1]
            if isinstance(v_, (ast.List, ast.Tuple)):
                nfields = len(v_.elts)
            elif isinstance(v_, ast.Constant) and isinstance(v_.value, str):
                nfields = len(v_.value.replace(",", " ").split())
    NF = ("call", ("global", "len"),
          (("attr", ("global", "RouterDiagnostics"), "_fields"),), ())

    def nf(t):
        if not isinstance(t, tuple):
            return t
        if t == NF:
            return ("const", nfields)
        if t and t[0] == "const":
            return t
        return tuple(nf(x) for x in t)
    menv = folder.module_env(MC)

    def ev(e_):
        return folder.eval(e_, menv, rd._module)
    rs = reads(TR, rd)
    okr = len(rs) == 1 and nfields == 16
    if okr:
        r_ = rs[0]
        okr = fold_consts(nf(r_.get("address", ("?",))), ev) == (
            "const", base + 0x300) and fold_consts(
                nf(r_.get("length_bytes", ("?",))), ev) == ("const", 64) \
            and r_.get("x") == rx and r_.get("y") == ry
        rets_ = [plain(TR.term(r.value)) for r in returns_of(rd)
                 if r.value is not None]
        okr = okr and len(rets_) == 1
        if okr:
            rt_ = rets_[0]
            up = [st_ for st_ in subterms(rt_) if st_[0] == "call" and
                  st_[1] == ("attr", ("global", "struct"), "unpack")]
            okr = len(up) == 1 and rt_ in (
                ("call", ("global", "RouterDiagnostics"),
                 (("star", up[0]),), ()),
                ("call", ("attr", ("global", "RouterDiagnostics"), "_make"),
                 (up[0],), ()))
            if okr:
                f_ = fold_consts(nf(up[0][2][0]), ev)
                if f_[0] == "call" and f_[1][0] == "attr" and \
                        f_[1][2] == "format" and f_[1][1][0] == "const" and \
                        len(f_[2]) == 1 and f_[2][0][0] == "const":
                    f_ = ("const", f_[1][1][1].format(f_[2][0][1]))
                okr = f_ == ("const", "<16I") and up[0][2][1][0] == "call" \
                    and up[0][2][1][1] == ("attr", SELF, "read")
    rep.check(okr, "C14-R6", qual(rd), "router counters: 16 words (64 "
              "bytes) from router base + 0x300 of that chip",
              construct="router diagnostics", node=rd)
    rep.floor("C14-R6", 5)


# Perl pack codes the struct files use -> the struct module's code of the
# same width and signedness (perldoc -f pack; the byte order is given once,
# '<', by the reader).  Trusted.
PERL_PACK = {b"c": b"b", b"C": b"B", b"s": b"h", b"S": b"H", b"v": b"H",
             b"n": b"H", b"l": (b"i", b"l"), b"L": (b"I", b"L"),
             b"V": (b"I", b"L"), b"N": (b"I", b"L"), b"q": b"q", b"Q": b"Q",
             b"A": b"s", b"a": b"s"}


# The per-core status block as SARK lays it out (sark.h, vcpu_t): name ->
# (offset, bytes).  A fact about the machine, like the SCP return codes: the
# struct file is the package's copy of it.
VCPU_WIRE = dict(
    [("r%d" % i, (4 * i, 4)) for i in range(8)] + [
        ("psr", (0x20, 4)), ("sp", (0x24, 4)), ("lr", (0x28, 4)),
        ("rt_code", (0x2c, 1)), ("phys_cpu", (0x2d, 1)),
        ("cpu_state", (0x2e, 1)), ("app_id", (0x2f, 1)),
        ("mbox_ap_msg", (0x30, 4)), ("mbox_mp_msg", (0x34, 4)),
        ("mbox_ap_cmd", (0x38, 1)), ("mbox_mp_cmd", (0x39, 1)),
        ("sw_count", (0x3a, 2)), ("sw_file", (0x3c, 4)),
        ("sw_line", (0x40, 4)), ("time", (0x44, 4)),
        ("app_name", (0x48, 16)), ("iobuf", (0x58, 4)),
        ("sw_ver", (0x5c, 4)),
        ("user0", (0x70, 4)), ("user1", (0x74, 4)), ("user2", (0x78, 4)),
        ("user3", (0x7c, 4))])
_PACK_BYTES = {"A": 1, "c": 1, "C": 1, "v": 2, "V": 4}


def _parse_struct_layout(text, name):
    """{field: (offset, bytes)} and the size of one struct of sark.struct,
    read the way struct_file.read_struct_file reads it."""
    def num(v):
        return int(v, 16) if re.match(r"0[xX][0-9a-fA-F]+$", v) else int(v)
    out, size, cur = {}, None, None
    for line in text.splitlines():
        toks = line.split("#")[0].split()
        if not toks:
            continue
        if len(toks) == 3 and toks[1] == "=":
            if toks[0] == "name":
                cur = toks[2]
            elif toks[0] == "size" and cur == name:
                size = num(toks[2])
            continue
        if cur != name:
            continue
        if len(toks) != 5:
            raise AnalysisError("sark.struct: a line of struct %s does not "
                                "have five columns" % name)
        field, pack, offset = toks[:3]
        m = re.match(r"(\w)(\d+)$", pack)
        if m:
            n_, ch = int(m.group(2)), m.group(1)
        else:
            n_, ch = 1, pack
        if ch not in _PACK_BYTES:
            raise AnalysisError("sark.struct: pack character %r" % pack)
        m2 = re.match(r"(\w+)\[(\d+)\]$", field)
        length = 1
        if m2:
            field, length = m2.group(1), int(m2.group(2))
        nbytes = n_ * _PACK_BYTES[ch]
        if ch != "A":
            nbytes *= length
        out[field] = (num(offset), nbytes)
    return out, size


def r6_struct_layout(program, rep):
    """The vcpu struct of sark.struct places every field where SARK keeps it
    and gives it the width SARK gives it: the status decode and
    read_vcpu_struct_field read through this table, so a field one byte
    narrower silently drops the high byte of what the machine holds."""
    text = program.read_data("rig/boot/sark.struct").decode("latin-1")
    lay, size = _parse_struct_layout(text, "vcpu")
    if len(lay) < 20:
        raise AnalysisError("sark.struct: vcpu struct not found")
    inst = "rig/boot/sark.struct:vcpu"
    rep.check(size == 128, "C14-R6", inst, "the status block is 128 bytes",
              construct="vcpu size %r" % (size,), positive=True,
              fail="the vcpu struct is declared %r bytes long; SARK's is "
                   "128: the blocks of cores other than 0 are read from the "
                   "wrong addresses" % (size,))
    for fname, (off, nb) in sorted(VCPU_WIRE.items()):
        if fname not in lay:
            continue        # (use of a missing field: C14-R6 above)
        rep.check(lay[fname] == (off, nb), "C14-R6", inst,
                  "%s is %d byte(s) at offset 0x%02x" % (fname, nb, off),
                  construct="vcpu field %s %r" % (fname, lay[fname]),
                  positive=True,
                  fail="sark.struct places vcpu.%s at offset 0x%02x, %d "
                       "byte(s) wide; SARK keeps it at 0x%02x, %d byte(s) "
                       "wide: what is decoded for it is not what the core "
                       "holds" % (fname, lay[fname][0], lay[fname][1], off,
                                  nb))


def r_struct_no_overlap(program, rep, rule):
    """Every struct of sark.struct: no field runs into the next one or past
    the end of the struct.  (A field declared wider than it is: writing it
    overwrites its neighbour, reading it returns both.)"""
    text = program.read_data("rig/boot/sark.struct").decode("latin-1")
    names = re.findall(r"^\s*name\s*=\s*(\w+)", text, re.M)
    if not names:
        raise AnalysisError("sark.struct: no struct found")
    for name in names:
        lay, size = _parse_struct_layout(text, name)
        inst = "rig/boot/sark.struct:%s" % name
        fs = sorted((off, nb, f) for f, (off, nb) in lay.items())
        bad = [(a, b) for a, b in zip(fs, fs[1:]) if a[0] + a[1] > b[0]]
        rep.check(not bad, rule, inst, "no field of %s overlaps the next"
                  % name, construct="struct %s overlaps %d" % (name,
                                                                len(bad)),
                  positive=True,
                  fail="%s.%s (%d byte(s) at 0x%02x) runs into %s.%s at "
                       "0x%02x: writing the first overwrites the second, "
                       "reading it returns both" % (
                           (name, bad[0][0][2], bad[0][0][1], bad[0][0][0],
                            name, bad[0][1][2], bad[0][1][0]) if bad else
                           ("",) * 2 + (0, 0) + ("",) * 2 + (0,)))
        over = [f for f in fs if size is not None and f[0] + f[1] > size]
        rep.check(not over, rule, inst, "every field of %s lies inside its "
                  "%s bytes" % (name, size),
                  construct="struct %s beyond end %d" % (name, len(over)),
                  positive=True,
                  fail="%s.%s ends beyond the %s bytes of the struct" % (
                      name, over[0][2] if over else "", size))


def r6_status_offsets(program, rep):
    """Each field of the per-core status block is decoded at the offset the
    struct description gives for it (fields need not be back to back: the
    block has array fields and padding)."""
    fn = program.get(CTRL + ".get_processor_status")
    T = Terms(fn)
    val = None
    for b in T.binds:
        if b.mode == "assign" and b.value is not None and \
                isinstance(b.value, ast.DictComp):
            t = plain(T._bind_term(b))
            if t[0] == "dictcomp" and t[1][0] == "pair":
                val = t[1][2]
                break
    if val is None:
        raise AnalysisError("get_processor_status: the decode of the status "
                            "fields is not a dictionary comprehension; that "
                            "form is not analysed")
    ups = [st_ for st_ in subterms(val) if st_[0] == "call" and
           st_[1][0] == "attr" and st_[1][1] == ("global", "struct") and
           st_[1][2] in ("unpack", "unpack_from")]
    if len(ups) != 1:
        raise AnalysisError("get_processor_status: one struct.unpack per "
                            "field expected")
    u = ups[0]
    fmt = u[2][0]
    F = None
    for st_ in subterms(fmt):
        if st_[0] == "attr" and st_[2] == "pack_chars":
            F = st_[1]
    whole = any(st_[0] == "call" and st_[1][0] == "attr" and
                st_[1][2] == "join" for st_ in subterms(fmt))
    OFF = ("attr", F, "offset") if F is not None else None
    at = None
    if u[1][2] == "unpack_from":
        at = u[2][2] if len(u[2]) > 2 else dict(u[3]).get("offset")
    elif len(u[2]) == 2 and u[2][1][0] == "item" and \
            u[2][1][2][0] == "slice":
        at = u[2][1][2][1]
    if F is None or (at is not None and at != OFF and not whole):
        raise AnalysisError("get_processor_status: where a field is decoded "
                            "from is computed in a form that is not "
                            "analysed")
    rep.check(not whole and at == OFF, "C14-R6", qual(fn), "every status "
              "field is decoded with its own format at its own offset in "
              "the block", construct="status field offset", node=fn,
              fail="the status fields are not decoded at the offsets the "
                   "struct description gives (%s): array fields and padding "
                   "(e.g. the four-word pad before user0..user3) shift "
                   "every field after them" % (
                       "all fields are unpacked with one concatenated "
                       "format, one item per field" if whole else
                       "decoded from %s" % (show(at) if at else
                                            "the start of the block")))


def r6_pack_table(program, folder, rep):
    """The table translating the struct file's (Perl) field codes into
    struct-module codes keeps width and signedness: the status blocks are
    decoded with whatever it says."""
    SFM = "rig.machine_control.struct_file"
    program.module(SFM)
    try:
        table = folder.name(SFM, "perl_to_python_packs")
    except AnalysisError:
        raise AnalysisError("struct_file.perl_to_python_packs does not fold "
                            "to a constant table")
    if not isinstance(table, dict) or not table:
        raise AnalysisError("struct_file.perl_to_python_packs is not a "
                            "constant dictionary")
    for k, v in sorted(table.items()):
        want = PERL_PACK.get(k)
        if want is None:
            continue
        want = want if isinstance(want, tuple) else (want,)
        rep.check(v in want, "C14-R6", SFM + ":perl_to_python_packs",
                  "field code %r is decoded as %r (same width and "
                  "signedness)" % (k, v), construct="pack code %r" % (k,),
                  fail="the struct-file field code %r is decoded with "
                       "struct code %r; Perl's %r is %s: values of such "
                       "fields in the status blocks come out wrong" % (
                           k, v, k, " or ".join(repr(w) for w in want)))


def r5_busy_states(program, folder, rep):
    """Every core that is not idle is reserved: a core counts as busy by
    ``state != AppState.idle`` or by membership in a constant table that
    folds to all states but idle (a table that leaves out, say, the error
    states hands crashed cores to the allocator)."""
    fn = program.get(PU + ":build_core_constraints")
    inst = qual(fn)
    states = folder.name(CONSTS, "AppState")
    all_busy = set(m.name for m in states if m.name != "idle")
    n_tests = 0
    for c in ast.walk(fn):
        if not isinstance(c, ast.Compare) or len(c.ops) != 1:
            continue
        op = c.ops[0]
        if isinstance(op, (ast.NotEq, ast.IsNot, ast.Eq, ast.Is)) and \
                "AppState.idle" in (unparse(c.left),
                                    unparse(c.comparators[0])):
            n_tests += 1
            continue
        if isinstance(op, (ast.In, ast.NotIn)) and \
                isinstance(c.comparators[0], (ast.Name, ast.Attribute)):
            try:
                tbl = folder.eval(c.comparators[0],
                                  folder.module_env(PU), fn._module)
                names = set(m.name for m in tbl)
            except Exception:
                continue
            if not names <= set(m.name for m in states):
                continue
            n_tests += 1
            want = all_busy if isinstance(op, ast.In) else {"idle"}
            rep.check(names == want, "C14-R5", inst, "the table of states "
                      "that make a core busy holds every state but idle",
                      construct="busy states table", node=c,
                      fail="a core counts as busy only in the states %s: "
                           "cores in %s are treated as free and handed to "
                           "the allocator although something (a crashed "
                           "application, say) occupies them" % (
                               sorted(names), sorted(all_busy - names))
                      if isinstance(op, ast.In) else None)
    if not n_tests:
        raise AnalysisError("build_core_constraints: the test that makes a "
                            "core busy was not found in a form these rules "
                            "read")


def check(program, rep):
    program.module(MC)
    folder = Folder(program)
    rep.guard("C14-R1", r1_chip_info, program, folder, rep)
    rep.guard("C14-R2", r2_p2p, program, folder, rep)
    rep.guard("C14-R3", r3_sets, program, rep)
    rep.guard("C14-R4", r4_machine, program, rep)
    rep.guard("C14-R5", r5_reservations, program, rep)
    rep.guard("C14-R5", r5_busy_states, program, folder, rep)
    rep.guard("C14-R6", r6_status, program, folder, rep)
    rep.guard("C14-R6", r6_status_offsets, program, rep)
    rep.guard("C14-R6", r6_struct_layout, program, rep)
    rep.guard("C14-R6", r_struct_no_overlap, program, rep, "C14-R6")
    # the console buffers and per-core fields are found through
    # read_vcpu_struct_field: the address is computed for the chip and core
    # asked about, each time (C07-R4)
    from . import C07
    rep.guard("C07-R4", C07.r4_addresses, program, folder, rep)
    rep.guard("C14-R6", r6_version, program, rep)
    rep.guard("C14-R6", r6_pack_table, program, folder, rep)
    # the reservations made for one probe are used with that probe's
    # description only: the function that puts the two together does not
    # leave them in the caller's constraint list (C17-R1)
    from . import C17
    rep.guard("C17-R1", C17.r1_for, program, rep,
              ["rig.place_and_route.wrapper"])
    # arguments handed to package functions under the wrong name / same-
    # named optional parameters not passed on (NAMELINK, DESIGN.md 9.13)
    from .. import namelink as _nl
    rep.guard("C14-R7", _nl.rule, program, rep, "C14-R7",
              [m for m in sorted(program.modules) if m.startswith("rig.machine_control")] + [m for m in sorted(program.modules) if m.startswith("rig.place_and_route")])
    # a chip that does not answer is reported dead because the failed command
    # raises an SCPError: every return code the machine can send is filed in
    # the tables that error is built from (C06-R5)
    from . import C06 as _C06
    rep.guard("C06-R5", _C06.r5_code_tables, program, rep, folder)
    from . import C09 as _C09
    rep.guard("C14-R6", _C09.r_appstate_wire, program, rep, folder, "C14-R6")
    return finish(rep, program, EXPLANATION, NOT_DECIDED,
                  trusted=["SC&MP cmd_info arg1 layout INFO_ARG1 in "
                           "rules/C14.py", "the checker's parser of "
                           "sark.struct"])
