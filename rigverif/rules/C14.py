"""C14 - the probed system description and the derived machine model match
the machine.

R1 chip-information reply decode (bit layout, payload format)
R2 point-to-point table walk
R3 derived dead sets and membership tests (SystemInfo and Machine)
R4 machine model: exceptions relative to the very defaults used
R5 core reservations partition the busy cores; minimal contiguous ranges
R6 status / console buffer / router counter decode against sark.struct
"""
import ast
import re

from ..core import AnalysisError, finish, unparse
from ..constfold import Folder, EnumMember
from ..bits import provenance
from ..dataflow import Flow, chain, call_name
from ..poly import Poly
from ..terms import Terms, mk_cmp, is_none, plain, match, V, ANY, show, \
    subterms, alternatives, stores, method_calls, lookup, truth_paths, \
    yields, reify, owner_terms, owner_views
from ..util import calls_in, qual, formals, returns_of, has_fact

MC = "rig.machine_control.machine_controller"
CTRL = MC + ":MachineController"
PU = "rig.place_and_route.utils"
MA = "rig.place_and_route.machine"
CONSTS = "rig.machine_control.consts"

# SC&MP cmd_info reply, arg1 (scamp-3 scamp-cmd.c): field -> (lo bit, width)
INFO_ARG1 = {"num_cores": (0, 5), "working_links": (8, 6),
             "largest_free_rtr_mc_block": (14, 11), "ethernet_up": (25, 1)}

EXPLANATION = (
    "R1: bit provenance of every field extracted from the chip-information "
    "reply is compared with the documented layout (cores 4:0, links 13:8 "
    "with bit 8+link, router block 24:14, Ethernet 25; payload '<18BHI'). "
    "R2: the P2P table walk's column address normalises to base + 128*col, "
    "the word buffer advances by 4 per word, entries are bits 3k+2:3k, at "
    "most min(8, height-row) per word, and every 3-bit value is a member of "
    "P2PTableEntry (folded). R3/R4/R5: comprehension conditions, def-use "
    "identity between defaults and exception test, single-bit tests of the "
    "same core number in the global and per-chip reservation filters, the "
    "range-merging generator's branch structure. R6: sark.struct is parsed "
    "by the checker: every vcpu field popped/renamed exists and the final "
    "key set equals ProcessorStatus._fields.")
NOT_DECIDED = ["that the machine's replies mean what the documentation says",
               "behaviour when a chip stops responding mid-probe (only the "
               "SCPError skip is checked)"]


def _const_of(folder, mod, extra=None):
    env = dict(folder.module_env(mod.name))
    if extra:
        env.update(extra)

    def f(e):
        try:
            v = folder.eval(e, env, mod)
        except AnalysisError:
            return None
        if isinstance(v, EnumMember) and v.cls.is_int:
            v = v.value
        if isinstance(v, bool) or not isinstance(v, int):
            return None
        return v
    return f


def r1_chip_info(program, folder, rep):
    fn = program.get(CTRL + ".get_chip_info")
    inst = qual(fn)
    fl = Flow(fn)
    mod = fn._module
    cf = _const_of(folder, mod)
    got = {}
    for d in fl.defs:
        if d.mode != "assign" or d.value is None:
            continue
        v = d.value
        if d.var == "ethernet_up" and isinstance(v, ast.Call) and \
                call_name(v)[0] == "bool":
            v = v.args[0]
        if d.var in ("num_cores", "largest_free_rtr_mc_block",
                     "ethernet_up"):
            lay = provenance(v, cf)
            if len(lay.pieces) == 1 and lay.pieces[0].src == "info.arg1":
                p = lay.pieces[0]
                if d.var == "ethernet_up":
                    # arg1 & (1 << 25): tested in place
                    got[d.var] = (p.dst_lo if p.src_lo == p.dst_lo
                                  else p.src_lo, p.n)
                else:
                    got[d.var] = (p.src_lo, p.n)
    # working links: comprehension over Links with bit 8 + link
    wl = [d for d in fl.defs if d.var == "working_links"]
    links = folder.name("rig.links", "Links")
    bits = None
    if len(wl) == 1:
        gens = [n for n in ast.walk(wl[0].value)
                if isinstance(n, (ast.GeneratorExp, ast.SetComp))]
        if len(gens) == 1 and len(gens[0].generators[0].ifs) == 1 and \
                unparse(gens[0].generators[0].iter) == "Links" and \
                chain(gens[0].elt) == chain(gens[0].generators[0].target):
            lv = chain(gens[0].generators[0].target)
            cond = gens[0].generators[0].ifs[0]
            bits = []
            for m in links:
                lay = provenance(cond, _const_of(folder, mod, {lv: m}))
                if len(lay.pieces) == 1 and \
                        lay.pieces[0].src == "info.arg1" and \
                        lay.pieces[0].n == 1:
                    bits.append(lay.pieces[0].src_lo)
                else:
                    bits.append(None)
    if bits is not None and None not in bits:
        ok = bits == [8 + m.value for m in links]
        got["working_links"] = (min(bits), len(bits)) if ok else None
    for field, (lo, n) in sorted(INFO_ARG1.items()):
        rep.check(got.get(field) == (lo, n), "C14-R1", inst,
                  "%s = arg1 bits %d:%d" % (field, lo + n - 1, lo),
                  construct="%s from %s" % (field, got.get(field)), node=fn,
                  fail="%s is decoded from arg1 bits %s; SC&MP reports it in "
                       "bits %d:%d" % (field, got.get(field), lo + n - 1,
                                       lo))
    # payload
    up = [c for c in calls_in(fn, "unpack_from")]
    okp = len(up) == 1 and cf(up[0].args[0]) is None and \
        folder.eval(up[0].args[0], {}, mod) == "<18BHI" and \
        unparse(up[0].args[1]) == "info.data"
    dv = chain(up[0]._parent.targets[0]) if okp else None
    cs = [d for d in fl.defs if d.var == "core_states"]
    okc = len(cs) == 1 and unparse(cs[0].value) == \
        "[consts.AppState(c) for c in %s[:18]]" % dv
    le_ = [d for d in fl.defs if d.var == "local_ethernet_chip"]
    okl = False
    if len(le_) == 1 and isinstance(le_[0].value, ast.Tuple):
        lays = [provenance(e, cf) for e in le_[0].value.elts]
        okl = [(l.pieces[0].src, l.pieces[0].src_lo, l.pieces[0].n)
               for l in lays if len(l.pieces) == 1] == [
            ("%s[18]" % dv, 8, 8), ("%s[18]" % dv, 0, 8)]
    ip = [d for d in fl.defs if d.var == "ip_address"]
    oki = len(ip) == 1 and "range(0, 32, 8)" in unparse(ip[0].value) and \
        "%s[19] >> i & 255" % dv in unparse(ip[0].value) and \
        unparse(ip[0].value).startswith("'.'.join(")
    rep.check(okp and okc and okl and oki, "C14-R1", inst,
              "payload '<18BHI': 18 core states, local Ethernet chip as "
              "(high byte, low byte) = (x, y), IP address low byte first",
              construct="chip info payload", node=fn)
    r = returns_of(fn)
    okr = False
    if len(r) == 1 and isinstance(r[0].value, ast.Call):
        kw = {k.arg: unparse(k.value) for k in r[0].value.keywords}
        okr = kw == {
            "num_cores": "num_cores",
            "core_states": "core_states[:num_cores]",
            "working_links": "working_links",
            "largest_free_sdram_block": "info.arg2",
            "largest_free_sram_block": "info.arg3",
            "largest_free_rtr_mc_block": "largest_free_rtr_mc_block",
            "ethernet_up": "ethernet_up", "ip_address": "ip_address",
            "local_ethernet_chip": "local_ethernet_chip"}
    rep.check(okr, "C14-R1", inst, "ChipInfo fields receive their namesake "
              "values; core states truncated to the core count; free SDRAM "
              "/ SRAM = arg2 / arg3", construct="ChipInfo construction",
              node=fn)
    s = calls_in(fn, "_send_scp")
    ps = formals(fn)
    oks = len(s) == 1 and [unparse(a) for a in s[0].args[:4]] == [
        ps[1], ps[2], "0", "SCPCommands.info"]
    rep.check(oks, "C14-R1", inst, "the information command goes to core 0 "
              "of the chip asked about", construct="info target", node=fn)
    rep.floor("C14-R1", 6)


def r2_p2p(program, folder, rep):
    fn = program.get(CTRL + ".get_p2p_routing_table")
    inst = qual(fn)
    fl = Flow(fn, consts=None)
    mod = fn._module
    cf = _const_of(folder, mod)
    dims = {}
    for d in fl.defs:
        if d.var in ("width", "height") and d.mode == "assign":
            lay = provenance(d.value, cf)
            if len(lay.pieces) == 1:
                p = lay.pieces[0]
                dims[d.var] = (p.src, p.src_lo, p.n)
    rep.check(dims == {"width": ("p2p_dims", 8, 8),
                       "height": ("p2p_dims", 0, 8)}, "C14-R2", inst,
              "width = p2p_dims[15:8], height = p2p_dims[7:0]",
              construct="p2p dims %s" % sorted(dims.items()), node=fn)
    cw = [d for d in fl.defs if d.var == "col_words"]
    H = Poly.atom("height")
    okw = False
    if len(cw) == 1:
        h = fl.symvar("height", cw[0].node)
        okw = fl.sym(cw[0].value, cw[0].node) == fl.fdiv(
            h + 7, Poly.const(8)) * 4
    rep.check(okw, "C14-R2", inst, "bytes per column = ceil(height / 8) "
              "words", construct="col_words", node=fn)
    rd = [c for c in calls_in(fn, "read")]
    oka = False
    if len(rd) == 1:
        n = fl.cfg.node_containing(rd[0])
        from ..constfold import consts_for
        fl2 = Flow(fn, consts=consts_for(folder, fn))
        n2 = fl2.cfg.node_containing(rd[0])
        a = fl2.sym(rd[0].args[0], n2)
        base = folder.name(CONSTS, "SPINNAKER_RTR_P2P")
        col = fl2.symvar("col", n2)
        oka = a == col * 128 + base and chain(rd[0].args[1]) == "col_words" \
            and [chain(x) for x in rd[0].args[2:4]] == formals(fn)[1:3]
    rep.check(oka, "C14-R2", inst, "column c is read from P2P base + 128 * "
              "c (256 entries x 3 bits packed 8 per word)",
              construct="column address", node=fn)
    # word stream: head 4 bytes decoded, buffer advances by 4
    wl = [n for n in ast.walk(fn) if isinstance(n, ast.While)]
    oks = False
    okm = False
    if len(wl) == 1:
        w = wl[0]
        heads = tails = None
        bufv = None
        for s_ in ast.walk(w):
            if isinstance(s_, ast.Subscript) and isinstance(s_.slice,
                                                            ast.Slice):
                lo = unparse(s_.slice.lower) if s_.slice.lower else ""
                hi = unparse(s_.slice.upper) if s_.slice.upper else ""
                if (lo, hi) == ("", "4"):
                    heads = s_
                if (lo, hi) == ("4", ""):
                    tails = s_
        ups = [c for c in calls_in(w, ("unpack", "unpack_from"))]
        if heads is not None and tails is not None and len(ups) == 1:
            bufv = chain(tails.value)
            # the tail is assigned back to the buffer; the word decoded is
            # the head
            back = any(d.var == bufv and _inside(d.node.ast, w) and
                       d.mode in ("assign", "unpack") for d in fl.defs)
            src = chain(ups[0].args[1])
            hd = [d for d in fl.defs if d.var == src and
                  _inside(d.node.ast, w)]
            oks = back and chain(heads.value) == bufv and len(hd) == 1 and \
                folder.eval(ups[0].args[0], {}, mod) == "<I" and \
                call_name(ups[0])[0] == "unpack"
        okm = unparse(w.test) == "row < height"
        fors = [n for n in ast.walk(w) if isinstance(n, ast.For)]
        if len(fors) == 1:
            okm = okm and unparse(fors[0].iter) == \
                "range(min(8, height - row))"
            ev = chain(fors[0].target)
            st = [s_ for s_ in ast.walk(fors[0]) if isinstance(s_, ast.Assign)
                  and isinstance(s_.targets[0], ast.Subscript)]
            inc = [s_ for s_ in ast.walk(fors[0])
                   if isinstance(s_, ast.AugAssign)]
            okm = okm and len(st) == 1 and len(inc) == 1 and \
                unparse(st[0].targets[0]) == "table[col, row]" and \
                unparse(inc[0]) == "row += 1"
            if okm:
                v = st[0].value
                okm = isinstance(v, ast.Call) and \
                    unparse(v.func) == "consts.P2PTableEntry"
                if okm:
                    for k in range(8):
                        lay = provenance(v.args[0], _const_of(
                            folder, mod, {ev: k}))
                        okm = okm and len(lay.pieces) == 1 and (
                            lay.pieces[0].src_lo, lay.pieces[0].n) == (
                            3 * k, 3)
        else:
            okm = False
    rep.check(oks, "C14-R2", inst, "each 32-bit word is decoded from the "
              "next four bytes of the column: the buffer advances by 4 per "
              "word", construct="word stream", node=fn,
              fail="the column buffer does not advance by one word per "
                   "decoded word: rows 8.. of a column are decoded from the "
                   "wrong word")
    rep.check(okm, "C14-R2", inst, "entry k of a word is bits 3k+2:3k; at "
              "most min(8, height - row) entries per word; rows advance by "
              "one", construct="entry extraction", node=fn)
    p2p = folder.name(CONSTS, "P2PTableEntry")
    rep.check(sorted(m.value for m in p2p) == list(range(8)), "C14-R2",
              CONSTS + ":P2PTableEntry", "every 3-bit value is a member of "
              "P2PTableEntry (the constructor cannot fail)",
              construct="P2PTableEntry values")
    # get_system_info: probes exactly the chips with a route
    gi = program.get(CTRL + ".get_system_info")
    gfl = Flow(gi)
    t = unparse(gi)
    okg = "if p2p_route != consts.P2PTableEntry.none" in t and \
        "sys_info[x, y] = self.get_chip_info(x, y)" in t and \
        "SystemInfo(max_x + 1, max_y + 1)" in t and \
        "except SCPError" in t
    mx = [d for d in gfl.defs if d.var in ("max_x", "max_y")]
    okg = okg and len(mx) == 2 and all(
        "r != consts.P2PTableEntry.none" in unparse(d.value) for d in mx) \
        and unparse(mx[0].value).startswith("max((x_ for (x_, y_), r") and \
        unparse(mx[1].value).startswith("max((y_ for (x_, y_), r")
    rep.check(okg, "C14-R2", qual(gi), "every chip with a P2P route is "
              "probed under its own coordinates; unresponsive chips are "
              "skipped; size = largest routed coordinate + 1",
              construct="system probe", node=gi)
    rep.floor("C14-R2", 6)


def _inside(node, anc):
    n = node
    while n is not None:
        if n is anc:
            return True
        n = getattr(n, "_parent", None)
    return False


def _rng(t):
    return ("elem", ("call", ("global", "range"), (t,), ()))


def r3_sets(program, rep):
    """Membership and enumeration of the system description and of the
    machine model, decided on canonical facts: what is yielded / accepted
    under which conditions, however the tests are nested or staged."""
    si = MC + ":SystemInfo"
    SELF = ("param", "self")
    X, Y = _rng(("attr", SELF, "width")), _rng(("attr", SELF, "height"))
    LINK = ("elem", ("global", "Links"))
    dc = program.get(si + ".dead_chips")
    D = Terms(dc)
    ys = yields(D)
    ok = len(ys) == 1 and ys[0][1] == ("tuple", X, Y) and \
        (mk_cmp("In", ("tuple", X, Y), SELF), False) in ys[0][2]
    rep.check(ok, "C14-R3", si + ".dead_chips", "dead chips = grid minus "
              "the chips present", construct="dead_chips", node=dc)
    dl = program.get(si + ".dead_links")
    L = Terms(dl)
    ys = yields(L)
    E = ("elem", ("items", SELF))
    ok = len(ys) == 1 and ys[0][1] == ("tuple", ("comp", ("comp", E, 0), 0),
                                       ("comp", ("comp", E, 0), 1), LINK) \
        and (mk_cmp("In", LINK, ("attr", ("comp", E, 1), "working_links")),
             False) in ys[0][2]
    rep.check(ok, "C14-R3", si + ".dead_links", "dead links = for every "
              "present chip, all six links minus its working links",
              construct="dead_links", node=dl)
    ct = program.get(si + ".__contains__")
    C = Terms(ct)
    a = ("param", formals(ct)[1])
    ln = ("call", ("global", "len"), (a,), ())
    is2, is3, is4 = [mk_cmp("Eq", ln, ("const", k)) for k in (2, 3, 4)]
    a2 = C._comp(a, 2, -1)
    isl = ("call", ("global", "isinstance"), (a2, ("global", "Links")), ())
    isi = ("call", ("global", "isinstance"),
           (a2, ("attr", ("global", "six"), "integer_types")), ())
    CHIP = ("get", SELF, ("tuple", C._comp(a, 0, -1), C._comp(a, 1, -1)))
    P_ = C._comp(a, 2, -1)
    cases = [
        ("(x, y)", [(is2, True)], None),
        ("(x, y, link)", [(is2, False), (is3, True), (isl, True)],
         {(is_none(CHIP), False),
          (mk_cmp("In", a2, ("attr", CHIP, "working_links")), True)}),
        ("(x, y, p)", [(is2, False), (is3, True), (isl, False), (isi, True)],
         {(is_none(CHIP), False), (mk_cmp("LtE", ("const", 0), P_), True),
          (mk_cmp("Lt", P_, ("attr", CHIP, "num_cores")), True)}),
        ("(x, y, p, state)", [(is2, False), (is3, False), (is4, True)],
         {(is_none(CHIP), False), (mk_cmp("LtE", ("const", 0), P_), True),
          (mk_cmp("Lt", P_, ("attr", CHIP, "num_cores")), True),
          (mk_cmp("Eq", ("item", ("attr", CHIP, "core_states"), P_),
                  C._comp(a, 3, -1)), True)}),
    ]
    for name, hyps, want in cases:
        H = C.under(*hyps)
        paths = truth_paths(H)
        if want is None:
            ok = len(paths) == 1 and any(
                t[0] in ("call", "callv") and t[2] == (a,) and
                "__contains__" in show(t[1]) for t, p in paths[0])
        else:
            got = [frozenset((plain(t), p) for t, p in ps) for ps in paths]
            ok = got == [frozenset((plain(t), p) for t, p in want)]
        rep.check(ok, "C14-R3", qual(ct), "membership of %s holds exactly "
                  "under the documented conditions" % name,
                  construct="SystemInfo contains %s" % name, node=ct)
    # Machine membership / iteration
    mc = program.get(MA + ":Machine.__contains__")
    M = Terms(mc)
    a = ("param", formals(mc)[1])
    ln = ("call", ("global", "len"), (a,), ())
    is2, is3 = [mk_cmp("Eq", ln, ("const", k)) for k in (2, 3)]
    x_, y_, l_ = [M._comp(a, i, -1) for i in range(3)]
    chip_ok = {(mk_cmp("LtE", ("const", 0), x_), True),
               (mk_cmp("Lt", x_, ("attr", SELF, "width")), True),
               (mk_cmp("LtE", ("const", 0), y_), True),
               (mk_cmp("Lt", y_, ("attr", SELF, "height")), True),
               (mk_cmp("In", ("tuple", x_, y_),
                       ("attr", SELF, "dead_chips")), False)}
    link_ok = {(mk_cmp("In", ("tuple", x_, y_), SELF), True),
               (mk_cmp("In", ("tuple", x_, y_, l_),
                       ("attr", SELF, "dead_links")), False)}

    def norm(ps, arity):
        # a tuple rebuilt from all components of the argument is the argument
        out = set()
        for t, p in ps:
            t = plain(t)
            out.add((t, p))
        return frozenset(out)
    ok = True

    def variants(want, whole):
        """The expected facts, with the tuple of all components of the
        argument written either way (as a tuple or as the argument)."""
        alt = set()
        for t, p in want:
            if t[0] == "cmp" and t[2] == whole:
                t = (t[0], t[1], a, t[3])
            alt.add((t, p))
        return [norm(want, 0), norm(alt, 0)]
    for hyps, want, whole in (
            ([(is2, True)], chip_ok, ("tuple", x_, y_)),
            ([(is2, False), (is3, True)], link_ok, ("tuple", x_, y_, l_))):
        H = M.under(*hyps)
        got = [norm(ps, 0) for ps in truth_paths(H)]
        ok = ok and len(got) == 1 and got[0] in variants(want, whole)
    rep.check(ok, "C14-R3", qual(mc), "a chip is in the model iff in range "
              "and not dead; a link iff its chip is and the link is not "
              "dead", construct="Machine contains", node=mc)
    it_ = program.get(MA + ":Machine.__iter__")
    I = Terms(it_)
    ys = yields(I)
    ok = len(ys) == 1 and ys[0][1] == ("tuple", X, Y) and \
        (mk_cmp("In", ("tuple", X, Y), SELF), True) in ys[0][2]
    rep.check(ok, "C14-R3", qual(it_), "__iter__ yields exactly what "
              "__contains__ accepts, over the whole grid",
              construct="Machine __iter__", node=it_,
              fail="Machine.__iter__ does not filter the grid with "
                   "'(x, y) in self': the model's chips no longer equal "
                   "the probed working ones")
    il = program.get(MA + ":Machine.iter_links")
    IL = Terms(il)
    ys = yields(IL)
    TRI = ("tuple", X, Y, LINK)
    ok = len(ys) == 1 and ys[0][1] == TRI
    if ok:
        f = ys[0][2]
        ok = (mk_cmp("In", TRI, SELF), True) in f or (
            (mk_cmp("In", ("tuple", X, Y), SELF), True) in f and
            (mk_cmp("In", TRI, ("attr", SELF, "dead_links")), False) in f)
    rep.check(ok, "C14-R3", qual(il), "iter_links yields exactly what "
              "__contains__ accepts, over the whole grid",
              construct="Machine iter_links", node=il,
              fail="Machine.iter_links does not filter with '(x, y, link) "
                   "in self': the model's links no longer equal the probed "
                   "working ones (e.g. links of dead chips are listed)")
    gi = program.get(MA + ":Machine.__getitem__")
    G = Terms(gi)
    xy = ("param", formals(gi)[1])
    rets = [(G.cfg.node_of(r), G.term(r.value)) for r in returns_of(gi)
            if r.value is not None]
    ok = len(rets) == 1 and rets[0][1] == (
        "get", ("attr", SELF, "chip_resource_exceptions"), xy,
        ("attr", SELF, "chip_resources")) and \
        (mk_cmp("In", xy, SELF), True) in G.all_facts(rets[0][0])
    rep.check(ok, "C14-R3", qual(gi),
              "a chip's resources are its exception entry, else the "
              "defaults; dead chips raise", construct="Machine getitem",
              node=gi)
    rep.floor("C14-R3", 10)


def r4_machine(program, rep):
    fn = program.get(PU + ":build_machine")
    inst = qual(fn)
    fl = Flow(fn)
    ps = formals(fn)
    si = ps[0]
    r = returns_of(fn)
    if len(r) != 1 or not isinstance(r[0].value, ast.Call):
        raise AnalysisError("build_machine: return shape")
    kw = {k.arg: k.value for k in r[0].value.keywords}
    need = ("width", "height", "chip_resources", "chip_resource_exceptions",
            "dead_chips", "dead_links")
    if not all(k in kw for k in need):
        raise AnalysisError("build_machine: Machine(...) keywords")
    attr = {ps[1]: "num_cores", ps[2]: "largest_free_sdram_block",
            ps[3]: "largest_free_sram_block"}
    cr = kw["chip_resources"]
    defaults = {}
    if isinstance(cr, ast.Dict):
        for k, v in zip(cr.keys, cr.values):
            defaults[chain(k)] = chain(v)
    okd = set(defaults) == set(attr)
    # each default aggregates the right attribute over all chips
    for res, var in defaults.items():
        ds = [d for d in fl.defs if d.var == var and d.mode == "assign" and
              isinstance(d.value, ast.Call)]
        okd = okd and any(
            "c.%s for c in itervalues(%s)" % (attr.get(res), si)
            in unparse(d.value) for d in ds)
    rep.check(okd, "C14-R4", inst, "default chip resources aggregate "
              "num_cores / largest free SDRAM / SRAM over all chips into the "
              "core / sdram / sram resources", construct="defaults %s" %
              sorted(defaults.items()), node=fn)
    ex = kw["chip_resource_exceptions"]
    oke = False
    okv = False
    if isinstance(ex, ast.DictComp) and len(ex.generators) == 1:
        g = ex.generators[0]
        iv = chain(g.target.elts[1]) if isinstance(g.target, ast.Tuple) \
            else None
        oke = unparse(g.iter) == "iteritems(%s)" % si and len(g.ifs) == 1
        if oke and isinstance(g.ifs[0], ast.BoolOp) and \
                isinstance(g.ifs[0].op, ast.Or):
            conds = set(unparse(v) for v in g.ifs[0].values)
            want = set("%s.%s != %s" % (iv, attr[res], defaults[res])
                       for res in defaults)
            oke = conds == want
        else:
            oke = False
        if isinstance(ex.value, ast.Dict):
            vals = {chain(k): unparse(v) for k, v in zip(ex.value.keys,
                                                         ex.value.values)}
            okv = vals == {res: "%s.%s" % (iv, a) for res, a in attr.items()}
        okv = okv and chain(ex.key) == chain(g.target.elts[0])
    rep.check(oke, "C14-R4", inst, "a chip is an exception iff any of its "
              "three quantities differs from the very value used as the "
              "default", construct="exception test", node=fn,
              fail="the exception filter does not compare each quantity "
                   "with the default actually used: a chip that differs can "
                   "silently get the default resources")
    rep.check(okv, "C14-R4", inst, "each exception lists the chip's own "
              "cores, SDRAM and SRAM under the right resource",
              construct="exception values", node=fn)
    okg = unparse(kw["width"]) == "%s.width" % si and \
        unparse(kw["height"]) == "%s.height" % si and \
        unparse(kw["dead_chips"]) == "set(%s.dead_chips())" % si and \
        unparse(kw["dead_links"]) == "set(%s.dead_links())" % si
    rep.check(okg, "C14-R4", inst, "size, dead chips and dead links come "
              "from the same system description", construct="geometry",
              node=fn)
    rep.floor("C14-R4", 4)


def _bit_test(e, gname, cname):
    """Is e a test of exactly bit `cname` of `gname`?"""
    t = unparse(e)
    return t in ("1 << %s & %s" % (cname, gname),
                 "%s & 1 << %s" % (gname, cname),
                 "%s >> %s & 1" % (gname, cname))


def r5_reservations(program, rep):
    fn = program.get(PU + ":build_core_constraints")
    inst = qual(fn)
    fl = Flow(fn)
    g = "globally_reserved"
    exts = calls_in(fn, "extend")
    comps = []
    for c in exts:
        inner = c.args[0]
        if isinstance(inner, ast.Call) and \
                call_name(inner)[0] == "_get_minimal_core_reservations":
            comps.append(inner)
    ok = len(comps) == 2
    rep.check(ok, "C14-R5", inst, "one global and one per-chip batch of "
              "reservations", construct="reservation batches %d" %
              len(comps), node=fn)
    if not ok:
        return
    glob = [c for c in comps if len(c.args) == 2]
    loc = [c for c in comps if len(c.args) == 3]
    okg = okl = False
    if len(glob) == 1 and isinstance(glob[0].args[1], ast.ListComp):
        lc = glob[0].args[1]
        gen = lc.generators[0]
        cv = chain(gen.target)
        okg = unparse(gen.iter) == "range(18)" and chain(lc.elt) == cv and \
            len(gen.ifs) == 1 and _bit_test(gen.ifs[0], g, cv)
    if len(loc) == 1 and isinstance(loc[0].args[1], ast.ListComp):
        lc = loc[0].args[1]
        gen = lc.generators[0]
        okl = unparse(gen.iter) == "enumerate(chip_info.core_states)" and \
            len(gen.ifs) == 1 and isinstance(gen.ifs[0], ast.BoolOp) and \
            isinstance(gen.ifs[0].op, ast.And) and \
            len(gen.ifs[0].values) == 2
        if okl:
            cv, sv = [chain(t) for t in gen.target.elts]
            a, b = gen.ifs[0].values
            okl = chain(lc.elt) == cv and \
                unparse(a) == "%s != AppState.idle" % sv and \
                isinstance(b, ast.UnaryOp) and isinstance(b.op, ast.Not) \
                and _bit_test(b.operand, g, cv)
            okl = okl and chain(loc[0].args[2]) == "chip"
    rep.check(okg, "C14-R5", inst, "global reservations = cores whose bit is "
              "set in the all-chips mask (single-bit test of that core)",
              construct="global filter", node=fn)
    rep.check(okl, "C14-R5", inst, "per-chip reservations = that chip's "
              "non-idle cores whose bit is NOT set in the global mask "
              "(single-bit test of the same core number): the two sets "
              "partition the busy cores", construct="local filter", node=fn,
              fail="the per-chip filter does not test exactly bit <core> of "
                   "the global mask: a busy core can be left without any "
                   "reservation (or reserved twice)")
    # the mask: AND over chips of (OR of 1 << c for non-idle c)
    rs = [d for d in fl.defs if d.var == "reserved"]
    okm = len(rs) == 1 and unparse(rs[0].value) == \
        "sum((1 << c for c, state in enumerate(chip_info.core_states) " \
        "if state != AppState.idle))"
    gd = [d for d in fl.defs if d.var == g]
    kinds = sorted((d.mode, unparse(d.value) if d.mode == "assign"
                    else type(d.value.op).__name__) for d in gd)
    okm = okm and kinds == [("assign", "0"), ("assign", "None"),
                            ("assign", "reserved"), ("aug", "BitAnd")]
    rep.check(okm, "C14-R5", inst, "global mask = AND over all chips of the "
              "chip's non-idle-core bits (0 for an empty machine)",
              construct="global mask", node=fn)
    mn = program.get(PU + ":_get_minimal_core_reservations")
    mfl = Flow(mn)
    ds = [d for d in mfl.defs if d.var == "reservation" and
          d.mode == "assign"]
    forms = {}
    for d in ds:
        f = mfl.facts(d.node)
        key = tuple(sorted((unparse(c), p) for c, p, _ in f))
        forms[key] = unparse(d.value)
    ok = forms.get((("reservation is None", True),)) == \
        "slice(core, core + 1)" and \
        forms.get((("reservation is None", False),
                   ("reservation.stop == core", True))) == \
        "slice(reservation.start, core + 1)" and \
        forms.get((("reservation is None", False),
                   ("reservation.stop == core", False))) == \
        "slice(core, core + 1)"
    ys = [n for n in ast.walk(mn) if isinstance(n, ast.Yield)]
    oky = len(ys) == 2 and all(
        unparse(y.value) == "ReserveResourceConstraint(core_resource, "
        "reservation, chip)" for y in ys)
    if oky:
        fs = [mfl.facts(mfl.cfg.node_containing(y)) for y in ys]
        oky = any(has_fact(f, "reservation is not None", True) for f in fs) \
            and any(has_fact(f, "reservation.stop == core", False)
                    for f in fs)
    rep.check(ok and oky, "C14-R5", qual(mn), "consecutive cores extend the "
              "current range, a gap emits it and starts a new one, the last "
              "range is emitted", construct="range merging", node=mn)
    rep.floor("C14-R5", 5)


def _parse_struct(text, name):
    """Field names of one struct in sark.struct."""
    fields = []
    cur = None
    for line in text.splitlines():
        line = line.split("#")[0].strip()
        if not line:
            continue
        m = re.match(r"name\s*=\s*(\w+)", line)
        if m:
            cur = m.group(1)
            continue
        if re.match(r"(size|base)\s*=", line):
            continue
        if cur == name:
            fields.append(re.sub(r"\[\d+\]$", "", line.split()[0]))
    return fields


def r6_status(program, folder, rep):
    text = program.read_data("rig/boot/sark.struct").decode("latin-1")
    vcpu = _parse_struct(text, "vcpu")
    if len(vcpu) < 20:
        raise AnalysisError("sark.struct: vcpu struct not found")
    fn = program.get(CTRL + ".get_processor_status")
    inst = qual(fn)
    keys = set(vcpu)
    bad = []
    # simulate the key-set edits symbolically from the AST
    for st in fn.body:
        for n in ast.walk(st):
            if isinstance(n, ast.Call) and call_name(n)[0] == "pop" and \
                    chain(call_name(n)[1]) == "state":
                pass
    fl = Flow(fn)
    # pops with literal / formatted names
    for st in fn.body:
        if isinstance(st, ast.Assign) and isinstance(st.targets[0],
                                                     ast.Subscript) and \
                chain(st.targets[0].value) == "state":
            newk = st.targets[0].slice
            v = st.value
            if isinstance(v, ast.ListComp):
                call = v.elt
                rng = folder.eval(v.generators[0].iter, {}, fn._module)
                fmt = call.args[0].func.value.value
                for i in rng:
                    k = fmt.format(i)
                    if k not in keys:
                        bad.append(k)
                    keys.discard(k)
                keys.add(newk.value)
            elif isinstance(newk, ast.Constant):
                # state['x'] = f(state['x']) or computed from popped names
                for c in ast.walk(v):
                    if isinstance(c, ast.Subscript) and \
                            chain(c.value) == "state" and \
                            isinstance(c.slice, ast.Constant):
                        if c.slice.value not in keys:
                            bad.append(c.slice.value)
                keys.add(newk.value)
        elif isinstance(st, ast.Assign) and isinstance(st.value, ast.Call) \
                and call_name(st.value)[0] == "pop" and \
                chain(call_name(st.value)[1]) == "state":
            k = st.value.args[0].value
            if k not in keys:
                bad.append(k)
            keys.discard(k)
        elif isinstance(st, ast.Expr) and isinstance(st.value, ast.Call) and \
                call_name(st.value)[0] == "pop":
            k = st.value.args[0].value
            if k not in keys:
                bad.append(k)
            keys.discard(k)
        elif isinstance(st, ast.For):
            pairs = folder.eval(st.iter, {}, fn._module)
            for new, old in pairs:
                if old not in keys:
                    bad.append(old)
                keys.discard(old)
                keys.add(new)
    ps_cls = program.get(MC + ":ProcessorStatus")
    fields = folder.eval(ps_cls.bases[0].args[1], {}, fn._module).split()
    rep.check(not bad, "C14-R6", inst, "every per-core status field used "
              "exists in the vcpu struct of sark.struct",
              construct="missing vcpu fields %s" % bad, node=fn)
    rep.check(keys == set(fields), "C14-R6", inst, "after the renames the "
              "decoded keys are exactly ProcessorStatus's fields",
              construct="status keys diff %s" % sorted(
                  keys ^ set(fields)), node=fn)
    t = unparse(fn)
    oka = "self.read_struct_field('sv', 'vcpu_base', x, y) + " \
          "self.structs[b'vcpu'].size * p" in t and \
          "self.read(address, self.structs[b'vcpu'].size, x, y)" in t
    rep.check(oka, "C14-R6", inst, "the status block of core p is read from "
              "vcpu_base + size * p, size bytes", construct="status address",
              node=fn)
    io = program.get(CTRL + ".get_iobuf_bytes")
    t = unparse(io)
    import struct
    oki = "self.read(address, iobuf_size + 16, x, y)" in t and \
        "struct.unpack('<4I', iobuf_data[:16])" in t and \
        "iobuf += iobuf_data[16:16 + length]" in t and \
        "while address" in t and struct.calcsize("<4I") == 16 and \
        "address, time, ms, length = " in t
    rep.check(oki, "C14-R6", qual(io), "console buffers: read header + "
              "iobuf_size, header '<4I' (next, time, ms, length), take "
              "[16:16+length], follow next until 0",
              construct="iobuf walk", node=io)
    rd = program.get(CTRL + ".get_router_diagnostics")
    t = unparse(rd)
    base = folder.name(CONSTS, "SPINNAKER_RTR_BASE")
    okr = "struct.unpack('<16I', data)" in t and \
        "self.read(%d, 64, x=x, y=y)" % (base + 0x300) in t
    rep.check(okr, "C14-R6", qual(rd), "router counters: 16 words (64 "
              "bytes) from router base + 0x300 of that chip",
              construct="router diagnostics", node=rd)
    rep.floor("C14-R6", 5)


def check(program, rep):
    program.module(MC)
    folder = Folder(program)
    rep.guard("C14-R1", r1_chip_info, program, folder, rep)
    rep.guard("C14-R2", r2_p2p, program, folder, rep)
    rep.guard("C14-R3", r3_sets, program, rep)
    rep.guard("C14-R4", r4_machine, program, rep)
    rep.guard("C14-R5", r5_reservations, program, rep)
    rep.guard("C14-R6", r6_status, program, folder, rep)
    return finish(rep, program, EXPLANATION, NOT_DECIDED,
                  trusted=["SC&MP cmd_info arg1 layout INFO_ARG1 in "
                           "rules/C14.py", "the checker's parser of "
                           "sark.struct"])
