"""CONSTFOLD engine: folds the *constant data* of a module from its AST -
literals, arithmetic on them, displays, comprehensions over folded iterables,
enum class bodies, later top-level stores into a folded dict (in statement
order), ``np.array(<literal>, dtype=int)``, ``struct.calcsize`` and a few
pure builtins.  Nothing that depends on an input is ever evaluated: anything
else folds to ``FoldError`` (the rule then reports ANALYSIS-ERROR, never a
violation).
"""
import ast
import struct

from .core import AnalysisError


class FoldError(AnalysisError):
    pass


class EnumMember(object):
    """A member of a folded Enum/IntEnum class."""
    __slots__ = ("cls", "name", "value")

    def __init__(self, cls, name, value):
        self.cls = cls
        self.name = name
        self.value = value

    def __eq__(self, o):
        if isinstance(o, EnumMember):
            return (self.cls.name, self.name) == (o.cls.name, o.name)
        if self.cls.is_int and isinstance(o, int):
            return self.value == o
        return False

    def __ne__(self, o):
        return not self == o

    def __hash__(self):
        return hash(self.value) if self.cls.is_int else hash(
            (self.cls.name, self.name))

    def __index__(self):
        if not self.cls.is_int:
            raise TypeError("not an IntEnum")
        return self.value

    __int__ = __index__

    def __lt__(self, o):
        return int(self) < int(o)

    def __repr__(self):
        return "%s.%s" % (self.cls.name, self.name)


class EnumClass(object):
    def __init__(self, name, is_int):
        self.name = name
        self.is_int = is_int
        self.members = {}      # name -> EnumMember (definition order kept)

    def by_value(self, v):
        for m in self.members.values():
            if m.value == v:
                return m
        raise FoldError("%s has no member with value %r" % (self.name, v))

    def __iter__(self):
        seen = set()
        for m in self.members.values():
            if m.value not in seen:     # aliases are not iterated
                seen.add(m.value)
                yield m

    def __len__(self):
        return len(list(iter(self)))

    def __repr__(self):
        return "<enum %s>" % self.name


class Opaque(object):
    """A named value we do not fold (a function, an imported module...)."""
    def __init__(self, what):
        self.what = what

    def __repr__(self):
        return "<opaque %s>" % self.what


def _num(v):
    if isinstance(v, EnumMember):
        return int(v)
    return v


class Folder(object):
    def __init__(self, program):
        self.program = program
        self.envs = {}       # module name -> env dict
        self._busy = set()

    # -- modules ----------------------------------------------------------------
    def module_env(self, modname):
        if modname in self.envs:
            return self.envs[modname]
        if modname in self._busy:
            raise FoldError("import cycle while folding %s" % modname)
        self._busy.add(modname)
        mod = self.program.module(modname)
        env = {}
        self.envs[modname] = env
        for stmt in mod.tree.body:
            self._top(stmt, env, mod)
        self._busy.discard(modname)
        return env

    def name(self, modname, name):
        env = self.module_env(modname)
        if name not in env:
            raise FoldError("%s.%s is not a module-level binding" % (
                modname, name))
        v = env[name]
        if isinstance(v, FoldErrorValue):
            raise FoldError("%s.%s does not fold: %s" % (modname, name,
                                                        v.reason))
        return v

    def _top(self, stmt, env, mod):
        if isinstance(stmt, ast.Assign):
            try:
                val = self.eval(stmt.value, env, mod)
            except FoldError as e:
                val = FoldErrorValue(str(e))
            for t in stmt.targets:
                self._store(t, val, env, mod)
        elif isinstance(stmt, ast.AugAssign):
            if isinstance(stmt.target, ast.Name):
                try:
                    fake = ast.BinOp(left=stmt.target, op=stmt.op,
                                     right=stmt.value)
                    env[stmt.target.id] = self.eval(fake, env, mod)
                except FoldError as e:
                    env[stmt.target.id] = FoldErrorValue(str(e))
        elif isinstance(stmt, ast.ClassDef):
            bases = [ast.unparse(b).split(".")[-1] for b in stmt.bases]
            if any(b in ("IntEnum", "Enum", "IntFlag") for b in bases):
                cls = EnumClass(stmt.name, "Enum" not in bases or
                                "IntEnum" in bases)
                cls.is_int = any(b in ("IntEnum", "IntFlag") for b in bases)
                cenv = dict(env)
                for s in stmt.body:
                    if isinstance(s, ast.Assign) and len(s.targets) == 1 and \
                            isinstance(s.targets[0], ast.Name):
                        nm = s.targets[0].id
                        if nm.startswith("__"):
                            continue
                        try:
                            v = _num(self.eval(s.value, cenv, mod))
                        except FoldError as e:
                            raise FoldError("enum %s.%s: %s" % (
                                stmt.name, nm, e))
                        cls.members[nm] = EnumMember(cls, nm, v)
                        cenv[nm] = v
                env[stmt.name] = cls
            else:
                env[stmt.name] = Opaque("class " + stmt.name)
        elif isinstance(stmt, (ast.FunctionDef, ast.AsyncFunctionDef)):
            env[stmt.name] = Opaque("function " + stmt.name)
        elif isinstance(stmt, ast.Import):
            for a in stmt.names:
                env[a.asname or a.name.split(".")[0]] = Opaque(
                    "module " + a.name)
        elif isinstance(stmt, ast.ImportFrom):
            for a in stmt.names:
                local = a.asname or a.name
                target = mod.imports.get(local)
                env[local] = ImportRef(target)
        elif isinstance(stmt, ast.Expr):
            # a bare call that mutates a folded container (d.update(...))
            v = stmt.value
            if isinstance(v, ast.Call) and isinstance(v.func, ast.Attribute) \
                    and isinstance(v.func.value, ast.Name) and \
                    v.func.value.id in env and \
                    isinstance(env[v.func.value.id], (dict, list, set)):
                tgt = env[v.func.value.id]
                try:
                    args = [self.eval(a, env, mod) for a in v.args]
                    getattr(tgt, v.func.attr)(*args)
                except Exception as e:
                    env[v.func.value.id] = FoldErrorValue(
                        "mutated by unfoldable call: %s" % e)
        elif isinstance(stmt, ast.Delete):
            for t in stmt.targets:
                if isinstance(t, ast.Name):
                    env.pop(t.id, None)
                else:
                    self._spoil(t, env)
        elif isinstance(stmt, ast.For) and not stmt.orelse and not any(
                isinstance(n, (ast.Break, ast.Continue, ast.Return))
                for n in ast.walk(stmt)):
            # a table filled by a loop over folded values: unrolled
            try:
                seq = list(self.eval(stmt.iter, env, mod))
                if len(seq) > 4096:
                    raise FoldError("long module-level loop")
            except (FoldError, TypeError):
                self._spoil(stmt, env)
                return
            for v in seq:
                self._store(stmt.target, v, env, mod)
                for s in stmt.body:
                    self._top(s, env, mod)
        elif isinstance(stmt, (ast.If, ast.Try, ast.For, ast.While,
                               ast.With)):
            # control flow at module level: names assigned inside do not fold
            self._spoil(stmt, env)

    def _spoil(self, stmt, env):
        """Names assigned, and containers stored into or called on, under
        ``stmt`` do not fold."""
        why = "assigned under module-level control flow"
        for n in ast.walk(stmt):
            if isinstance(n, ast.Name) and isinstance(n.ctx, (ast.Store,
                                                               ast.Del)):
                env[n.id] = FoldErrorValue(why)
            elif isinstance(n, ast.Subscript) and isinstance(
                    n.ctx, (ast.Store, ast.Del)) and \
                    isinstance(n.value, ast.Name):
                env[n.value.id] = FoldErrorValue(why)
            elif isinstance(n, ast.Call) and isinstance(
                    n.func, ast.Attribute) and \
                    isinstance(n.func.value, ast.Name) and \
                    isinstance(env.get(n.func.value.id), (dict, list, set)):
                env[n.func.value.id] = FoldErrorValue(why)

    def _store(self, target, val, env, mod):
        if isinstance(target, ast.Name):
            env[target.id] = val
        elif isinstance(target, (ast.Tuple, ast.List)):
            if isinstance(val, FoldErrorValue):
                for t in target.elts:
                    self._store(t, val, env, mod)
                return
            vals = list(val)
            if len(vals) != len(target.elts):
                raise FoldError("unpack length mismatch")
            for t, v in zip(target.elts, vals):
                self._store(t, v, env, mod)
        elif isinstance(target, ast.Subscript) and \
                isinstance(target.value, ast.Name):
            cont = env.get(target.value.id)
            if isinstance(cont, (dict, list)) and \
                    not isinstance(val, FoldErrorValue):
                try:
                    cont[self.eval(target.slice, env, mod)] = val
                except FoldError as e:
                    env[target.value.id] = FoldErrorValue(str(e))
            else:
                env[target.value.id] = FoldErrorValue("item store into a "
                                                      "non-folded value")

    # -- expressions ------------------------------------------------------------
    def eval(self, e, env, mod):
        if isinstance(e, ast.Constant):
            return e.value
        if isinstance(e, ast.Name):
            if e.id in env:
                v = env[e.id]
                if isinstance(v, FoldErrorValue):
                    raise FoldError("%s does not fold: %s" % (e.id, v.reason))
                if isinstance(v, ImportRef):
                    return self._import(v)
                return v
            if e.id in ("True", "False", "None"):
                return {"True": True, "False": False, "None": None}[e.id]
            if e.id in _BUILTINS:
                return Opaque("builtin " + e.id)
            raise FoldError("unknown name %s" % e.id)
        if isinstance(e, ast.Tuple):
            return tuple(self.eval(x, env, mod) for x in e.elts)
        if isinstance(e, ast.List):
            return [self.eval(x, env, mod) for x in e.elts]
        if isinstance(e, ast.Set):
            return set(self.eval(x, env, mod) for x in e.elts)
        if isinstance(e, ast.Dict):
            out = {}
            for k, v in zip(e.keys, e.values):
                if k is None:
                    out.update(self.eval(v, env, mod))
                else:
                    out[self.eval(k, env, mod)] = self.eval(v, env, mod)
            return out
        if isinstance(e, ast.UnaryOp):
            v = self.eval(e.operand, env, mod)
            if isinstance(e.op, ast.USub):
                return -_num(v)
            if isinstance(e.op, ast.UAdd):
                return +_num(v)
            if isinstance(e.op, ast.Invert):
                return ~_num(v)
            if isinstance(e.op, ast.Not):
                return not v
        if isinstance(e, ast.BinOp):
            a = self.eval(e.left, env, mod)
            b = self.eval(e.right, env, mod)
            return self._binop(e.op, a, b)
        if isinstance(e, ast.BoolOp):
            vals = [self.eval(v, env, mod) for v in e.values]
            if isinstance(e.op, ast.And):
                r = True
                for v in vals:
                    r = v
                    if not v:
                        break
                return r
            r = False
            for v in vals:
                r = v
                if v:
                    break
            return r
        if isinstance(e, ast.Compare):
            left = self.eval(e.left, env, mod)
            for op, c in zip(e.ops, e.comparators):
                right = self.eval(c, env, mod)
                if not self._cmp(op, left, right):
                    return False
                left = right
            return True
        if isinstance(e, ast.IfExp):
            return self.eval(e.body if self.eval(e.test, env, mod)
                             else e.orelse, env, mod)
        if isinstance(e, ast.Attribute):
            if isinstance(e.value, ast.Name) and \
                    (e.value.id + "." + e.attr) in env:
                v = env[e.value.id + "." + e.attr]
                if isinstance(v, FoldErrorValue):
                    raise FoldError("%s.%s does not fold: %s" % (
                        e.value.id, e.attr, v.reason))
                return v
            base = self.eval(e.value, env, mod)
            if isinstance(base, EnumClass):
                if e.attr in base.members:
                    return base.members[e.attr]
                raise FoldError("%s has no member %s" % (base.name, e.attr))
            if isinstance(base, EnumMember):
                if e.attr == "value":
                    return base.value
                if e.attr == "name":
                    return base.name
            if isinstance(base, Opaque):
                return Opaque("%s.%s" % (base.what, e.attr))
            if isinstance(base, ModuleRef):
                return self.name(base.name, e.attr)
            raise FoldError("attribute %s of %r" % (e.attr, base))
        if isinstance(e, ast.Subscript):
            base = self.eval(e.value, env, mod)
            if isinstance(e.slice, ast.Slice):
                lo = self.eval(e.slice.lower, env, mod) if e.slice.lower \
                    else None
                hi = self.eval(e.slice.upper, env, mod) if e.slice.upper \
                    else None
                st = self.eval(e.slice.step, env, mod) if e.slice.step \
                    else None
                return base[slice(lo, hi, st)]
            idx = self.eval(e.slice, env, mod)
            try:
                return base[idx]
            except Exception as ex:
                raise FoldError("subscript failed: %s" % ex)
        if isinstance(e, (ast.ListComp, ast.SetComp, ast.GeneratorExp,
                          ast.DictComp)):
            return self._comp(e, env, mod)
        if isinstance(e, ast.Call):
            return self._call(e, env, mod)
        if isinstance(e, ast.JoinedStr):
            raise FoldError("f-string")
        raise FoldError("cannot fold %s" % type(e).__name__)

    def _import(self, ref):
        if ref.target is None:
            raise FoldError("unresolved import")
        modname, _, attr = ref.target.partition(":")
        if modname in self.program.modules:
            if attr:
                sub = "%s.%s" % (modname, attr)
                if sub in self.program.modules and \
                        attr not in self.module_env(modname):
                    return ModuleRef(sub)
                return self.name(modname, attr)
            return ModuleRef(modname)
        if attr and ("%s.%s" % (modname, attr)) in self.program.modules:
            return ModuleRef("%s.%s" % (modname, attr))
        return Opaque(ref.target)

    def _binop(self, op, a, b):
        a2, b2 = _num(a), _num(b)
        try:
            if isinstance(op, ast.Add):
                return a2 + b2
            if isinstance(op, ast.Sub):
                return a2 - b2
            if isinstance(op, ast.Mult):
                return a2 * b2
            if isinstance(op, ast.FloorDiv):
                return a2 // b2
            if isinstance(op, ast.Div):
                return a2 / b2
            if isinstance(op, ast.Mod):
                return a2 % b2
            if isinstance(op, ast.Pow):
                return a2 ** b2
            if isinstance(op, ast.LShift):
                return a2 << b2
            if isinstance(op, ast.RShift):
                return a2 >> b2
            if isinstance(op, ast.BitAnd):
                return a2 & b2
            if isinstance(op, ast.BitOr):
                return a2 | b2
            if isinstance(op, ast.BitXor):
                return a2 ^ b2
        except Exception as ex:
            raise FoldError("arithmetic failed: %s" % ex)
        raise FoldError("operator %s" % type(op).__name__)

    def _cmp(self, op, a, b):
        n = type(op).__name__
        if n == "Eq":
            return a == b
        if n == "NotEq":
            return a != b
        if n == "In":
            return a in b
        if n == "NotIn":
            return a not in b
        if n == "Is":
            return a is b
        if n == "IsNot":
            return a is not b
        a, b = _num(a), _num(b)
        if n == "Lt":
            return a < b
        if n == "LtE":
            return a <= b
        if n == "Gt":
            return a > b
        if n == "GtE":
            return a >= b
        raise FoldError("comparison %s" % n)

    def _comp(self, e, env, mod):
        results = []

        def rec(i, env):
            if i == len(e.generators):
                if isinstance(e, ast.DictComp):
                    results.append((self.eval(e.key, env, mod),
                                    self.eval(e.value, env, mod)))
                else:
                    results.append(self.eval(e.elt, env, mod))
                return
            g = e.generators[i]
            it = self.eval(g.iter, env, mod)
            if isinstance(it, Opaque):
                raise FoldError("iteration over %r" % it)
            for item in it:
                env2 = dict(env)
                self._store(g.target, item, env2, mod)
                if all(self.eval(c, env2, mod) for c in g.ifs):
                    rec(i + 1, env2)
        rec(0, env)
        if isinstance(e, ast.ListComp):
            return results
        if isinstance(e, ast.SetComp):
            return set(results)
        if isinstance(e, ast.DictComp):
            return dict(results)
        return results   # generator: materialised

    def _call(self, e, env, mod):
        fname = ast.unparse(e.func)
        short = fname.split(".")[-1]
        if any(isinstance(a, ast.Starred) for a in e.args) or \
                any(k.arg is None for k in e.keywords):
            raise FoldError("star-args in call to %s" % fname)
        # enum class call: Links(3)
        if isinstance(e.func, (ast.Name, ast.Attribute)):
            try:
                f = self.eval(e.func, env, mod)
            except FoldError:
                f = None
            if isinstance(f, EnumClass) and len(e.args) == 1:
                return f.by_value(_num(self.eval(e.args[0], env, mod)))
        args = [self.eval(a, env, mod) for a in e.args]
        kw = {k.arg: self.eval(k.value, env, mod) for k in e.keywords}
        if isinstance(e.func, ast.Name) and e.func.id in env and \
                not isinstance(env[e.func.id], (Opaque, ImportRef)):
            raise FoldError("call of folded value %s" % fname)
        if isinstance(e.func, ast.Name) and isinstance(env.get(e.func.id),
                                                      ImportRef):
            tgt = env[e.func.id].target or ""
            if not tgt.startswith("six") and tgt.split(":")[0] in \
                    self.program.modules:
                raise FoldError("call of rig function %s" % fname)
        try:
            if short in ("array", "asarray") and fname.split(".")[0] in (
                    "np", "numpy"):
                return args[0]
            if short == "calcsize":
                return struct.calcsize(args[0])
            if short in ("iteritems", "items") and not e.args and \
                    isinstance(e.func, ast.Attribute):
                return list(self.eval(e.func.value, env, mod).items())
            if short == "iteritems" and len(args) == 1:
                return list(args[0].items())
            if short == "itervalues" and len(args) == 1:
                return list(args[0].values())
            if short == "iterkeys" and len(args) == 1:
                return list(args[0].keys())
            if short in ("keys", "values") and not e.args and \
                    isinstance(e.func, ast.Attribute):
                base = self.eval(e.func.value, env, mod)
                return list(getattr(base, short)())
            if isinstance(e.func, ast.Name) and short in _BUILTINS:
                if short == "namedtuple":
                    raise FoldError("namedtuple")
                return _BUILTINS[short](*[
                    a for a in args], **kw)
            if short == "format" and isinstance(e.func, ast.Attribute):
                base = self.eval(e.func.value, env, mod)
                if isinstance(base, str):
                    return base.format(*args, **kw)
            if short == "get" and isinstance(e.func, ast.Attribute):
                base = self.eval(e.func.value, env, mod)
                if isinstance(base, dict):
                    return base.get(*args)
            if short == "copy" and isinstance(e.func, ast.Attribute):
                base = self.eval(e.func.value, env, mod)
                return base.copy()
        except FoldError:
            raise
        except Exception as ex:
            raise FoldError("call %s failed: %s" % (fname, ex))
        raise FoldError("call of %s is not foldable" % fname)


_BUILTINS = {
    "range": lambda *a: list(range(*[_num(x) for x in a])),
    "len": len, "enumerate": lambda it, start=0: list(enumerate(it, start)),
    "zip": lambda *a: list(zip(*a)), "set": set, "frozenset": frozenset,
    "dict": dict, "list": list, "tuple": tuple, "sorted": sorted,
    "min": min, "max": max, "sum": sum, "abs": abs, "int": int,
    "bool": bool, "reversed": lambda x: list(reversed(x)), "any": any,
    "all": all, "float": float, "str": str, "bytes": bytes, "divmod": divmod,
    "pow": pow, "round": round,
}


class FoldErrorValue(object):
    def __init__(self, reason):
        self.reason = reason


class ImportRef(object):
    def __init__(self, target):
        self.target = target


class ModuleRef(object):
    def __init__(self, name):
        self.name = name


def consts_for(folder, fn):
    """A callable resolving dotted global names of fn's module to folded
    ints (None when the name does not fold to an int)."""
    mod = fn._module
    cache = {}

    def lookup(name):
        if name in cache:
            return cache[name]
        try:
            e = ast.parse(name, mode="eval").body
            v = folder.eval(e, folder.module_env(mod.name), mod)
        except (AnalysisError, SyntaxError):
            v = None
        if isinstance(v, EnumMember):
            v = v.value if v.cls.is_int else None
        if isinstance(v, bool) or not isinstance(v, int):
            v = None
        cache[name] = v
        return v
    return lookup


def fold_body(folder, fn, env, self_attrs=True):
    """Constant-propagate the straight-line part of a function body for
    given constant parameter values: Assign / AugAssign / If with a foldable
    test.  ``self.x = ...`` stores are kept under the key "self.x".  Stops at
    the first Return (its value is returned under "<return>"), nested defs are
    skipped, anything else that does not fold raises FoldError.  Used only to
    fold finite parameter tables (e.g. the eight admitted (signed, n_bits)
    pairs of a converter), never on runtime inputs."""
    mod = fn._module
    env = dict(env)

    class _Self(object):
        pass
    # constants defined at class level are read through self
    cls = getattr(fn, "_parent", None)
    if isinstance(cls, ast.ClassDef) and self_attrs:
        for s_ in cls.body:
            if isinstance(s_, ast.Assign) and len(s_.targets) == 1 and \
                    isinstance(s_.targets[0], ast.Name):
                try:
                    env.setdefault("self." + s_.targets[0].id, folder.eval(
                        s_.value, dict(folder.module_env(mod.name)), mod))
                except (FoldError, AnalysisError):
                    pass

    def ev(e):
        full = dict(folder.module_env(mod.name))
        full.update(env)
        return folder.eval(e, full, mod)

    def run(stmts):
        for s in stmts:
            if isinstance(s, ast.Expr) and isinstance(s.value, ast.Constant):
                continue
            if isinstance(s, (ast.FunctionDef, ast.ClassDef)):
                continue
            if isinstance(s, ast.Assign):
                try:
                    v = ev(s.value)
                except FoldError as e:
                    v = FoldErrorValue(str(e))
                for t in s.targets:
                    if isinstance(t, ast.Name):
                        env[t.id] = v
                    elif isinstance(t, ast.Attribute) and \
                            isinstance(t.value, ast.Name) and \
                            t.value.id == "self":
                        env["self." + t.attr] = v
                    elif isinstance(t, ast.Tuple) and not isinstance(
                            v, FoldErrorValue):
                        for tt, vv in zip(t.elts, v):
                            if isinstance(tt, ast.Name):
                                env[tt.id] = vv
                            elif isinstance(tt, ast.Attribute) and \
                                    isinstance(tt.value, ast.Name) and \
                                    tt.value.id == "self":
                                env["self." + tt.attr] = vv
                continue
            if isinstance(s, ast.If):
                c = ev(s.test)
                r = run(s.body if c else s.orelse)
                if r is not None:
                    return r
                continue
            if isinstance(s, ast.Return):
                try:
                    return ("ret", ev(s.value) if s.value is not None
                            else None)
                except FoldError:
                    return ("ret", None)
            if isinstance(s, ast.Raise):
                return ("raise", None)
            if isinstance(s, ast.Expr):
                continue        # a call for effect (warnings.warn ...)
            if isinstance(s, ast.Assert):
                # a failing assertion ends the execution like a raise
                try:
                    if not ev(s.test):
                        return ("raise", None)
                except FoldError:
                    pass
                continue
            if isinstance(s, ast.Pass):
                continue
            raise FoldError("fold_body: %s" % type(s).__name__)
        return None
    out = run(fn.body)
    env["<exit>"] = out
    return env
