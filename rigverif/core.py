"""PROGRAM engine: loads /repo's current source, locates anchors by qualified
name, and collects rule obligations / verdicts / evidence.

Nothing in here imports or executes any ``rig`` module; only ``ast.parse``.
"""
import ast
import hashlib
import json
import os
import sys
import time

_T0 = time.time()
REPO = os.environ.get("RIGVERIF_REPO", "/repo")
VERIF = os.path.dirname(os.path.dirname(os.path.abspath(__file__)))


class AnalysisError(Exception):
    """The analysis cannot be carried out (anchor vanished, constant did not
    fold, floor not met, shape outside what the engine understands).  Mapped to
    exit code 2, never to a VIOLATION."""


class AnchorError(AnalysisError):
    """A function / module / data file a property is anchored in no longer
    exists: nothing can be decided (exit code 2)."""

    def __init__(self, msg, internal=False):
        AnalysisError.__init__(self, msg)
        self.internal = internal


def _known_names():
    global _KNOWN
    if _KNOWN is None:
        path = os.path.join(os.path.dirname(os.path.abspath(__file__)),
                            "known_names.json")
        try:
            with open(path) as f:
                _KNOWN = json.load(f)
        except (IOError, OSError):
            _KNOWN = {}
    return _KNOWN


_KNOWN = None
_FETCHED = []


def _inline_method_aliases(tree):
    """Source normal form: ``add = t.add_core`` ... ``add(x, y, p)`` reads
    ``t.add_core(x, y, p)``.  For a local name bound once, to an attribute of
    a chain of names (``obj.meth``, ``self.table.get``), and only ever
    called; the names of the chain are bound at most once in the function
    (before the alias) and the function stores no attribute of that name
    anywhere - so the method fetched early is the method a later fetch
    would give."""
    import copy as _copy

    def chain_names(e):
        out = []
        while isinstance(e, ast.Attribute):
            out.append(e.attr)
            e = e.value
        if isinstance(e, ast.Name):
            return e.id, out
        return None, None

    for fn in list(ast.walk(tree)):
        if not isinstance(fn, (ast.FunctionDef, ast.AsyncFunctionDef)):
            continue
        own = []
        todo = list(fn.body)
        while todo:
            n = todo.pop()
            own.append(n)
            if isinstance(n, (ast.FunctionDef, ast.AsyncFunctionDef,
                              ast.ClassDef, ast.Lambda)):
                continue
            todo.extend(ast.iter_child_nodes(n))
        stores = {}
        attr_stores = set()
        for n in ast.walk(fn):
            if isinstance(n, ast.Name) and isinstance(n.ctx, (ast.Store,
                                                               ast.Del)):
                stores[n.id] = stores.get(n.id, 0) + 1
            elif isinstance(n, ast.Attribute) and isinstance(
                    n.ctx, (ast.Store, ast.Del)):
                attr_stores.add(n.attr)
            elif isinstance(n, (ast.Global, ast.Nonlocal)):
                for nm in n.names:
                    stores[nm] = stores.get(nm, 0) + 5
        params = {a.arg for a in ast.walk(fn.args) if isinstance(a, ast.arg)}
        for st in own:
            if not (isinstance(st, ast.Assign) and len(st.targets) == 1 and
                    isinstance(st.targets[0], ast.Name) and
                    isinstance(st.value, ast.Attribute)):
                continue
            nm = st.targets[0].id
            if stores.get(nm) != 1 or nm in params:
                continue
            root, attrs = chain_names(st.value)
            if root is None or root == nm:
                continue
            if stores.get(root, 0) > (0 if root in params else 1):
                continue
            if any(a in attr_stores for a in attrs):
                continue
            # the alias statement sits directly in the function body or in
            # a block of it (not under a loop that re-runs it with another
            # receiver - the receiver is bound once, so that is the same)
            loads = [x for x in ast.walk(fn) if isinstance(x, ast.Name) and
                     x.id == nm and isinstance(x.ctx, ast.Load)]
            if not loads:
                continue
            parents = {}
            for x in ast.walk(fn):
                for c in ast.iter_child_nodes(x):
                    parents[id(c)] = x
            if not all(isinstance(parents.get(id(x)), ast.Call) and
                       parents[id(x)].func is x for x in loads):
                continue
            # every use comes after the alias in the text (a use before it,
            # in a loop, would read the previous pass's binding: left alone)
            if any((x.lineno, x.col_offset) < (st.lineno, st.col_offset)
                   for x in loads):
                continue
            for x in loads:
                new = _copy.deepcopy(st.value)
                for y in ast.walk(new):
                    ast.copy_location(y, x)
                parents[id(x)].func = new
            # the alias statement goes
            for holder in ast.walk(fn):
                for field in ("body", "orelse", "finalbody"):
                    b = getattr(holder, field, None)
                    if isinstance(b, list) and st in b:
                        b.remove(st)
                        if not b:
                            b.append(ast.copy_location(ast.Pass(), st))
    ast.fix_missing_locations(tree)


def _inline_slice_objects(tree):
    """Source normal form: ``area = slice(a, b)`` ... ``buf[area]`` reads
    ``buf[a:b]`` - for a local name bound once to a ``slice(...)`` call whose
    arguments are names bound at most once, constants and arithmetic over
    them, and that is only ever used as a subscript."""
    import copy as _copy

    def stable(e, stores, params):
        for x in ast.walk(e):
            if isinstance(x, ast.Name):
                if stores.get(x.id, 0) > (0 if x.id in params else 1):
                    return False
            elif not isinstance(x, (ast.Constant, ast.BinOp, ast.UnaryOp,
                                    ast.operator, ast.unaryop,
                                    ast.expr_context, ast.Attribute)):
                return False
        return True

    for fn in list(ast.walk(tree)):
        if not isinstance(fn, (ast.FunctionDef, ast.AsyncFunctionDef)):
            continue
        stores = {}
        for n in ast.walk(fn):
            if isinstance(n, ast.Name) and isinstance(n.ctx, (ast.Store,
                                                               ast.Del)):
                stores[n.id] = stores.get(n.id, 0) + 1
        params = {a.arg for a in ast.walk(fn.args) if isinstance(a, ast.arg)}
        parents = {}
        for x in ast.walk(fn):
            for c in ast.iter_child_nodes(x):
                parents[id(c)] = x
        for st in list(ast.walk(fn)):
            if not (isinstance(st, ast.Assign) and len(st.targets) == 1 and
                    isinstance(st.targets[0], ast.Name) and
                    isinstance(st.value, ast.Call) and
                    isinstance(st.value.func, ast.Name) and
                    st.value.func.id == "slice" and
                    1 <= len(st.value.args) <= 3 and
                    not st.value.keywords):
                continue
            nm = st.targets[0].id
            if stores.get(nm) != 1 or nm in params or "slice" in stores:
                continue
            if not all(stable(a, stores, params) for a in st.value.args):
                continue
            loads = [x for x in ast.walk(fn) if isinstance(x, ast.Name) and
                     x.id == nm and isinstance(x.ctx, ast.Load)]
            if not loads or not all(
                    isinstance(parents.get(id(x)), ast.Subscript) and
                    parents[id(x)].slice is x for x in loads):
                continue
            if any((x.lineno, x.col_offset) < (st.lineno, st.col_offset)
                   for x in loads):
                continue
            a = st.value.args
            none = lambda e: isinstance(e, ast.Constant) and e.value is None  # noqa
            if len(a) == 1:
                lo, hi, step = None, a[0], None
            else:
                lo, hi = a[0], a[1]
                step = a[2] if len(a) == 3 else None
            for x in loads:
                sl = ast.Slice(
                    lower=None if lo is None or none(lo)
                    else _copy.deepcopy(lo),
                    upper=None if hi is None or none(hi)
                    else _copy.deepcopy(hi),
                    step=None if step is None or none(step)
                    else _copy.deepcopy(step))
                ast.copy_location(sl, x)
                parents[id(x)].slice = sl
            for holder in ast.walk(fn):
                for field in ("body", "orelse", "finalbody"):
                    b = getattr(holder, field, None)
                    if isinstance(b, list) and st in b:
                        b.remove(st)
                        if not b:
                            b.append(ast.copy_location(ast.Pass(), st))
    ast.fix_missing_locations(tree)


def _inline_local_constants(tree):
    """Source normal form: a local name bound once, by ``name = <number>``
    (a literal, or arithmetic / shifts / bit operations over literals and
    other such names), reads as that number wherever it is used afterwards:
    ``mask = (1 << bits) - 1`` ... ``w & mask`` reads ``w & ((1 << 3) - 1)``.
    The binding statement stays."""
    import copy as _copy

    def numeric(e, consts):
        if isinstance(e, ast.Constant):
            return isinstance(e.value, (int, float)) and \
                not isinstance(e.value, bool)
        if isinstance(e, ast.Name):
            return e.id in consts
        if isinstance(e, ast.BinOp) and isinstance(
                e.op, (ast.Add, ast.Sub, ast.Mult, ast.FloorDiv, ast.Mod,
                       ast.LShift, ast.RShift, ast.BitAnd, ast.BitOr,
                       ast.BitXor, ast.Pow)):
            return numeric(e.left, consts) and numeric(e.right, consts)
        if isinstance(e, ast.UnaryOp) and isinstance(
                e.op, (ast.USub, ast.UAdd, ast.Invert)):
            return numeric(e.operand, consts)
        return False

    def subst(e, consts):
        class S(ast.NodeTransformer):
            def visit_Name(self, n):
                if isinstance(n.ctx, ast.Load) and n.id in consts:
                    return ast.copy_location(_copy.deepcopy(consts[n.id]), n)
                return n
        return S().visit(_copy.deepcopy(e))

    for fn in list(ast.walk(tree)):
        if not isinstance(fn, (ast.FunctionDef, ast.AsyncFunctionDef)):
            continue
        stores = {}
        for n in ast.walk(fn):
            if isinstance(n, ast.Name) and isinstance(n.ctx, (ast.Store,
                                                               ast.Del)):
                stores[n.id] = stores.get(n.id, 0) + 1
            elif isinstance(n, (ast.Global, ast.Nonlocal)):
                for nm in n.names:
                    stores[nm] = stores.get(nm, 0) + 5
            elif isinstance(n, ast.arg):
                stores[n.arg] = stores.get(n.arg, 0) + 5
        # statements of fn's own body in source order
        own = []
        todo = list(fn.body)
        while todo:
            n = todo.pop()
            own.append(n)
            if isinstance(n, (ast.FunctionDef, ast.AsyncFunctionDef,
                              ast.ClassDef, ast.Lambda)):
                continue
            todo.extend(ast.iter_child_nodes(n))
        cands = [st for st in own if isinstance(st, ast.Assign) and
                 len(st.targets) == 1 and
                 isinstance(st.targets[0], ast.Name) and
                 stores.get(st.targets[0].id) == 1]
        cands.sort(key=lambda st: (st.lineno, st.col_offset))
        consts = {}
        where = {}
        for st in cands:
            if numeric(st.value, consts):
                # only top-level statements of the function body or of
                # blocks that are not loops re-running them matter little:
                # the value is the same every time
                consts[st.targets[0].id] = subst(st.value, consts)
                where[st.targets[0].id] = (st.lineno, st.col_offset)
        if not consts:
            continue
        # a use before the binding (textually) keeps the name
        early = set()
        for n in ast.walk(fn):
            if isinstance(n, ast.Name) and isinstance(n.ctx, ast.Load) and \
                    n.id in consts and (n.lineno, n.col_offset) < where[n.id]:
                early.add(n.id)
        for nm in early:
            consts.pop(nm)
        if not consts:
            continue

        class R(ast.NodeTransformer):
            def visit_Name(self, n):
                if isinstance(n.ctx, ast.Load) and n.id in consts:
                    new = _copy.deepcopy(consts[n.id])
                    for y in ast.walk(new):
                        ast.copy_location(y, n)
                    return new
                return n

            def visit_Assign(self, st):
                # the binding statements themselves stay as written
                if len(st.targets) == 1 and isinstance(
                        st.targets[0], ast.Name) and \
                        st.targets[0].id in consts:
                    return st
                return self.generic_visit(st)
        fn.body = [R().visit(s_) for s_ in fn.body]
    ast.fix_missing_locations(tree)


def _bool_flag_tests(tree):
    """Source normal form: for a local that is only ever bound to truth
    values (True / False, comparisons, ``not``, ``and`` / ``or`` of such,
    ``bool()`` / ``isinstance()`` / ``any()`` / ``all()``), ``flag is True``
    and ``flag == True`` read ``flag``; ``flag is False``, ``flag is not
    True``, ``flag == False`` read ``not flag``."""
    def boolish(e, names):
        if isinstance(e, ast.Constant):
            return isinstance(e.value, bool)
        if isinstance(e, ast.Compare):
            return True
        if isinstance(e, ast.UnaryOp) and isinstance(e.op, ast.Not):
            return True
        if isinstance(e, ast.BoolOp):
            return all(boolish(v, names) for v in e.values)
        if isinstance(e, ast.Name):
            return e.id in names
        if isinstance(e, ast.Call) and isinstance(e.func, ast.Name) and \
                e.func.id in ("bool", "isinstance", "any", "all",
                              "callable", "hasattr", "issubclass"):
            return True
        return False

    for fn in list(ast.walk(tree)):
        if not isinstance(fn, (ast.FunctionDef, ast.AsyncFunctionDef)):
            continue
        binds = {}
        bad = set()
        for n in ast.walk(fn):
            if isinstance(n, ast.arg):
                bad.add(n.arg)
            elif isinstance(n, (ast.Global, ast.Nonlocal)):
                bad.update(n.names)
            elif isinstance(n, ast.Assign):
                for t in n.targets:
                    if isinstance(t, ast.Name):
                        binds.setdefault(t.id, []).append(n.value)
                    else:
                        for x in ast.walk(t):
                            if isinstance(x, ast.Name) and isinstance(
                                    x.ctx, ast.Store):
                                bad.add(x.id)
            elif isinstance(n, (ast.AugAssign, ast.AnnAssign, ast.For,
                                ast.With, ast.NamedExpr, ast.comprehension,
                                ast.ExceptHandler, ast.Import,
                                ast.ImportFrom)):
                for x in ast.walk(n.target if hasattr(n, "target") and
                                  n.target is not None else n):
                    if isinstance(x, ast.Name) and isinstance(
                            x.ctx, ast.Store):
                        bad.add(x.id)
                if isinstance(n, ast.With):
                    for it in n.items:
                        if it.optional_vars is not None:
                            for x in ast.walk(it.optional_vars):
                                if isinstance(x, ast.Name):
                                    bad.add(x.id)
                if isinstance(n, ast.ExceptHandler) and n.name:
                    bad.add(n.name)
        flags = set()
        cand = {k for k in binds if k not in bad}
        for _ in range(3):
            flags = {k for k in cand
                     if all(boolish(v, flags) for v in binds[k])}
        if not flags:
            continue

        class R(ast.NodeTransformer):
            def visit_Compare(self, node):
                self.generic_visit(node)
                if len(node.ops) != 1:
                    return node
                l, r, op = node.left, node.comparators[0], node.ops[0]
                if isinstance(l, ast.Constant) and isinstance(r, ast.Name):
                    l, r = r, l
                if not (isinstance(l, ast.Name) and l.id in flags and
                        isinstance(r, ast.Constant) and
                        isinstance(r.value, bool) and
                        isinstance(op, (ast.Is, ast.IsNot, ast.Eq,
                                        ast.NotEq))):
                    return node
                positive = isinstance(op, (ast.Is, ast.Eq)) == r.value
                nm = ast.copy_location(ast.Name(id=l.id, ctx=ast.Load()),
                                       node)
                if positive:
                    return nm
                return ast.copy_location(
                    ast.UnaryOp(op=ast.Not(), operand=nm), node)
        fn.body = [R().visit(s_) for s_ in fn.body]
    ast.fix_missing_locations(tree)


def _split_parallel_assignments(tree):
    """Source normal form: ``a, b = x, y`` (displays of equal length, no
    starred part) reads ``a = x`` followed by ``b = y`` when no later value
    can see an earlier target: the targets are plain names or attributes,
    and no later value mentions a name / an attribute name that an earlier
    target stores."""
    for holder in list(ast.walk(tree)):
        for field in ("body", "orelse", "finalbody"):
            body = getattr(holder, field, None)
            if not (isinstance(body, list) and body and
                    isinstance(body[0], ast.stmt)):
                continue
            i = 0
            while i < len(body):
                st = body[i]
                i += 1
                if not (isinstance(st, ast.Assign) and
                        len(st.targets) == 1 and
                        isinstance(st.targets[0], (ast.Tuple, ast.List)) and
                        isinstance(st.value, (ast.Tuple, ast.List)) and
                        len(st.targets[0].elts) == len(st.value.elts) >= 2):
                    continue
                tg, vs = st.targets[0].elts, st.value.elts
                if not all(isinstance(t, (ast.Name, ast.Attribute))
                           for t in tg) or any(
                               isinstance(v, ast.Starred) for v in vs):
                    continue
                ok = True
                stored_names, stored_attrs = set(), set()
                for t, v in zip(tg, vs):
                    for x in ast.walk(v):
                        if isinstance(x, ast.Name) and x.id in stored_names:
                            ok = False
                        elif isinstance(x, ast.Attribute) and \
                                x.attr in stored_attrs:
                            ok = False
                        elif isinstance(x, (ast.Call, ast.NamedExpr,
                                            ast.Yield, ast.Await)) and \
                                (stored_names or stored_attrs):
                            ok = False      # a call may read what was stored
                    if isinstance(t, ast.Name):
                        stored_names.add(t.id)
                    else:
                        stored_attrs.add(t.attr)
                        # (the object whose attribute is stored must not be
                        # re-bound by an earlier target)
                        for x in ast.walk(t.value):
                            if isinstance(x, ast.Name) and \
                                    x.id in stored_names:
                                ok = False
                if not ok:
                    continue
                new = []
                for t, v in zip(tg, vs):
                    a = ast.Assign(targets=[t], value=v)
                    ast.copy_location(a, st)
                    new.append(a)
                body[i - 1:i] = new
                i += len(new) - 1


_DICT_N = [0]


def _hoist_walrus(tree):
    """Source normal form: ``if (n := f(x)) > k:`` reads ``n = f(x)`` followed
    by ``if n > k:`` - for an assignment expression that is evaluated
    whenever the statement is (not under the right operand of and / or, a
    conditional expression's branch, a comprehension, a lambda or a loop
    test) and before which the statement evaluates nothing but names,
    constants and attribute chains."""
    def simple(e):
        return isinstance(e, (ast.Name, ast.Constant)) or (
            isinstance(e, ast.Attribute) and simple(e.value))

    def find(e, before_ok):
        """The first NamedExpr evaluated unconditionally in e, or None;
        before_ok: everything evaluated so far was simple."""
        # returns (namedexpr or None, still_ok)
        if isinstance(e, ast.NamedExpr):
            inner, ok = find(e.value, before_ok)
            if inner is not None:
                return inner, ok
            return (e if before_ok else None), False
        if isinstance(e, ast.Dict) and e.keys and e.keys[0] is None and \
                all(k is None or isinstance(k, ast.Constant)
                    for k in e.keys):
            # {**a, **b, 'k': v}: a dictionary made afresh from a, updated
            # with b, then given entry 'k'
            ok_ = before_ok
            for v_ in e.values:
                inner, ok_ = find(v_, ok_)
                if inner is not None:
                    return inner, ok_
            # (what the display itself evaluates moves with it, in order)
            return (e if before_ok else None), False
        if isinstance(e, (ast.Lambda, ast.ListComp, ast.SetComp,
                          ast.DictComp, ast.GeneratorExp, ast.IfExp)):
            if isinstance(e, ast.IfExp):
                return find(e.test, before_ok)[0], False
            return None, False
        if isinstance(e, ast.BoolOp):
            got, ok = find(e.values[0], before_ok)
            return got, False
        if simple(e):
            return None, before_ok
        ok = before_ok
        for ch in ast.iter_child_nodes(e):
            if isinstance(ch, (ast.expr_context, ast.operator, ast.cmpop,
                               ast.unaryop, ast.boolop)):
                continue
            if isinstance(ch, ast.keyword):
                ch = ch.value
            if not isinstance(ch, ast.expr):
                continue
            got, ok = find(ch, ok)
            if got is not None:
                return got, ok
            if not ok:
                return None, False
        # e itself is a call / operation: evaluated after its children
        return None, False if isinstance(e, (ast.Call, ast.Subscript,
                                             ast.BinOp, ast.Compare,
                                             ast.UnaryOp)) and False \
            else ok and not isinstance(e, ast.Call)

    def replace(root, target, new):
        for node in ast.walk(root):
            for field, val in ast.iter_fields(node):
                if val is target:
                    setattr(node, field, new)
                    return True
                if isinstance(val, list):
                    for i, x in enumerate(val):
                        if x is target:
                            val[i] = new
                            return True
        return False

    for holder in list(ast.walk(tree)):
        for field in ("body", "orelse", "finalbody"):
            body = getattr(holder, field, None)
            if not (isinstance(body, list) and body and
                    isinstance(body[0], ast.stmt)):
                continue
            i = 0
            guard = 0
            while i < len(body) and guard < 200:
                guard += 1
                st = body[i]
                if isinstance(st, ast.If):
                    exprs = [("test", st.test)]
                elif isinstance(st, (ast.Assign, ast.AugAssign, ast.Return,
                                     ast.Expr, ast.AnnAssign)):
                    exprs = [("value", st.value)] if getattr(
                        st, "value", None) is not None else []
                else:
                    exprs = []
                hoisted = False
                for fname, e in exprs:
                    got, _ = find(e, True)
                    if isinstance(got, ast.Dict):
                        _DICT_N[0] += 1
                        tmp = "__dict%d" % _DICT_N[0]
                        pre = []

                        def _nm(ctx):
                            return ast.copy_location(
                                ast.Name(id=tmp, ctx=ctx), got)
                        v0 = got.values[0]
                        if isinstance(v0, (ast.Dict, ast.DictComp)) or (
                                isinstance(v0, ast.Call) and
                                isinstance(v0.func, ast.Name) and
                                v0.func.id == "dict"):
                            first = v0      # already made afresh
                        else:
                            first = ast.Call(func=ast.Name(id="dict",
                                                           ctx=ast.Load()),
                                             args=[v0], keywords=[])
                        pre.append(ast.Assign(targets=[_nm(ast.Store())],
                                              value=first))
                        for k_, v_ in zip(got.keys[1:], got.values[1:]):
                            if k_ is None:
                                pre.append(ast.Expr(value=ast.Call(
                                    func=ast.Attribute(
                                        value=_nm(ast.Load()),
                                        attr="update", ctx=ast.Load()),
                                    args=[v_], keywords=[])))
                            else:
                                pre.append(ast.Assign(
                                    targets=[ast.Subscript(
                                        value=_nm(ast.Load()), slice=k_,
                                        ctx=ast.Store())], value=v_))
                        for p_ in pre:
                            ast.copy_location(p_, st)
                            for x_ in ast.walk(p_):
                                if not hasattr(x_, "lineno"):
                                    ast.copy_location(x_, st)
                        nm = _nm(ast.Load())
                        if getattr(st, fname) is got:
                            setattr(st, fname, nm)
                        elif not replace(e, got, nm):
                            continue
                        body[i:i] = pre
                        hoisted = True
                        break
                    if got is None or not isinstance(got.target, ast.Name):
                        continue
                    asg = ast.Assign(
                        targets=[ast.Name(id=got.target.id,
                                          ctx=ast.Store())],
                        value=got.value)
                    ast.copy_location(asg, st)
                    ast.copy_location(asg.targets[0], got.target)
                    nm = ast.copy_location(
                        ast.Name(id=got.target.id, ctx=ast.Load()), got)
                    if getattr(st, fname) is got:
                        setattr(st, fname, nm)
                    elif not replace(e, got, nm):
                        continue
                    body.insert(i, asg)
                    hoisted = True
                    break
                if not hoisted:
                    i += 1
    ast.fix_missing_locations(tree)


_STRUCT_METHODS = ("pack", "unpack", "unpack_from", "pack_into",
                   "iter_unpack")


def _struct_objects(tree):
    """Source normal form: a name bound once (in the module, or in one
    function) to ``struct.Struct(<constant format>)`` - or to one of its
    bound methods - is read through: ``S.unpack_from(b, o)`` and
    ``u = S.unpack_from; u(b, o)`` read ``struct.unpack_from(F, b, o)``,
    ``S.size`` reads ``struct.calcsize(F)``.  The binding statements stay
    (other modules may import a module-level one)."""
    def struct_call(e):
        """(format constant node, method or None) if e is
        struct.Struct(F) / Struct(F) / that .method"""
        meth = None
        if isinstance(e, ast.Attribute) and e.attr in _STRUCT_METHODS:
            meth, e = e.attr, e.value
        if isinstance(e, ast.Call) and len(e.args) == 1 and \
                not e.keywords and isinstance(e.args[0], ast.Constant) and \
                isinstance(e.args[0].value, (str, bytes)):
            f = e.func
            if (isinstance(f, ast.Attribute) and f.attr == "Struct" and
                    isinstance(f.value, ast.Name) and
                    f.value.id == "struct") or \
                    (isinstance(f, ast.Name) and f.id == "Struct"):
                return e.args[0], meth
        return None

    def scope_nodes(scope):
        todo = list(scope.body)
        while todo:
            n = todo.pop()
            yield n
            if isinstance(n, (ast.FunctionDef, ast.AsyncFunctionDef,
                              ast.ClassDef, ast.Lambda)):
                continue
            todo.extend(ast.iter_child_nodes(n))

    def table(scope, inherited):
        stores = {}
        for n in scope_nodes(scope):
            if isinstance(n, ast.Name) and isinstance(n.ctx, (ast.Store,
                                                               ast.Del)):
                stores[n.id] = stores.get(n.id, 0) + 1
            elif isinstance(n, (ast.FunctionDef, ast.AsyncFunctionDef,
                                ast.ClassDef)):
                stores[n.name] = stores.get(n.name, 0) + 1
        if isinstance(scope, (ast.FunctionDef, ast.AsyncFunctionDef,
                              ast.Lambda)):
            for a in ast.walk(scope.args):
                if isinstance(a, ast.arg):
                    stores[a.arg] = stores.get(a.arg, 0) + 2
        tab = {k: v for k, v in inherited.items() if k not in stores}
        for n in scope_nodes(scope):
            if isinstance(n, ast.Assign) and len(n.targets) == 1 and \
                    isinstance(n.targets[0], ast.Name) and \
                    stores.get(n.targets[0].id) == 1:
                sc = struct_call(n.value)
                if sc is not None:
                    tab[n.targets[0].id] = sc
                elif isinstance(n.value, ast.Attribute) and \
                        n.value.attr in _STRUCT_METHODS and \
                        isinstance(n.value.value, ast.Name) and \
                        n.value.value.id in tab and \
                        tab[n.value.value.id][1] is None:
                    tab[n.targets[0].id] = (tab[n.value.value.id][0],
                                            n.value.attr)
        return tab

    def mk(meth, fmt, args, keywords, like):
        new = ast.Call(
            func=ast.Attribute(value=ast.Name(id="struct", ctx=ast.Load()),
                               attr=meth, ctx=ast.Load()),
            args=[ast.Constant(value=fmt.value)] + list(args),
            keywords=list(keywords))
        return ast.copy_location(new, like)

    def rewrite(scope, tab):
        if isinstance(scope, ast.Lambda):
            return
        class R(ast.NodeTransformer):
            def visit_FunctionDef(self, node):
                return node
            visit_AsyncFunctionDef = visit_FunctionDef
            visit_ClassDef = visit_FunctionDef
            visit_Lambda = visit_FunctionDef

            def visit_Call(self, node):
                self.generic_visit(node)
                f = node.func
                if isinstance(f, ast.Name) and f.id in tab and \
                        tab[f.id][1] is not None:
                    return mk(tab[f.id][1], tab[f.id][0], node.args,
                              node.keywords, node)
                if isinstance(f, ast.Attribute) and \
                        f.attr in _STRUCT_METHODS:
                    if isinstance(f.value, ast.Name) and \
                            f.value.id in tab and \
                            tab[f.value.id][1] is None:
                        return mk(f.attr, tab[f.value.id][0], node.args,
                                  node.keywords, node)
                    sc = struct_call(f.value)
                    if sc is not None and sc[1] is None:
                        return mk(f.attr, sc[0], node.args, node.keywords,
                                  node)
                return node

            def visit_Attribute(self, node):
                self.generic_visit(node)
                if node.attr == "size" and isinstance(node.ctx, ast.Load):
                    fmt = None
                    if isinstance(node.value, ast.Name) and \
                            node.value.id in tab and \
                            tab[node.value.id][1] is None:
                        fmt = tab[node.value.id][0]
                    else:
                        sc = struct_call(node.value)
                        if sc is not None and sc[1] is None:
                            fmt = sc[0]
                    if fmt is not None:
                        return mk("calcsize", fmt, [], [], node)
                return node
        r = R()
        scope.body = [r.generic_visit(s_) if not isinstance(
            s_, (ast.FunctionDef, ast.AsyncFunctionDef, ast.ClassDef))
            else s_ for s_ in scope.body] if False else scope.body
        for i, s_ in enumerate(list(scope.body)):
            if isinstance(s_, (ast.FunctionDef, ast.AsyncFunctionDef,
                               ast.ClassDef)):
                # decorators / defaults belong to the enclosing scope
                continue
            scope.body[i] = r.visit(s_)

    def walk(scope, inherited):
        tab = table(scope, inherited) if not isinstance(
            scope, ast.ClassDef) else inherited
        if tab and not isinstance(scope, ast.ClassDef):
            rewrite(scope, tab)
        for n in scope_nodes(scope):
            if isinstance(n, (ast.FunctionDef, ast.AsyncFunctionDef,
                              ast.ClassDef)):
                walk(n, tab)
    try:
        walk(tree, {})
    except RecursionError:
        pass
    ast.fix_missing_locations(tree)


def _normalise(tree):
    """Source normal forms shared by all rules: ``t = <expr>`` immediately
    followed by ``return t`` (t used nowhere else in the function) reads as
    ``return <expr>``; a ``while True`` loop opened by ``if <t>: break``
    reads as ``while not <t>``."""
    # statements and spellings without content: ``assert <true constant>``
    # and ``pass`` next to other statements are dropped; x[0:n] is x[:n];
    # ``None is x`` / ``None == x`` read ``x is None`` / ``x == None``
    for holder in ast.walk(tree):
        for field in ("body", "orelse", "finalbody"):
            body = getattr(holder, field, None)
            if not (isinstance(body, list) and body and
                    isinstance(body[0], ast.stmt)):
                continue
            keep = [s_ for s_ in body if not (
                isinstance(s_, ast.Pass) or (
                    isinstance(s_, ast.Assert) and
                    isinstance(s_.test, ast.Constant) and
                    bool(s_.test.value) and s_.msg is None))]
            if keep and len(keep) != len(body):
                body[:] = keep
        if isinstance(holder, ast.Slice) and holder.step is None and \
                isinstance(holder.lower, ast.Constant) and \
                holder.lower.value == 0 and \
                not isinstance(holder.lower.value, bool):
            holder.lower = None
        if isinstance(holder, ast.Compare) and len(holder.ops) == 1 and \
                isinstance(holder.ops[0], (ast.Is, ast.IsNot, ast.Eq,
                                           ast.NotEq)) and \
                isinstance(holder.left, ast.Constant) and \
                holder.left.value is None and \
                not isinstance(holder.comparators[0], ast.Constant):
            holder.left, holder.comparators[0] = \
                holder.comparators[0], holder.left
    # ``x in (None, 1)`` over a short display of constants, x a plain name or
    # attribute chain, reads ``x is None or x == 1`` (``not in``: the
    # conjunction of the negations)
    import copy as _copy

    def _pure_chain(e):
        while isinstance(e, ast.Attribute):
            e = e.value
        return isinstance(e, ast.Name)

    class _Membership(ast.NodeTransformer):
        def visit_Compare(self, node):
            self.generic_visit(node)
            if len(node.ops) != 1 or not isinstance(
                    node.ops[0], (ast.In, ast.NotIn)) or \
                    not _pure_chain(node.left):
                return node
            disp = node.comparators[0]
            if not isinstance(disp, (ast.Tuple, ast.List, ast.Set)) or \
                    not 1 <= len(disp.elts) <= 4 or not all(
                        isinstance(x, ast.Constant) and
                        not isinstance(x.value, float) for x in disp.elts) \
                    or not any(x.value is None for x in disp.elts):
                # (only where None is a member: that is where the reading
                # ``is None`` matters to the engines)
                return node
            pos = isinstance(node.ops[0], ast.In)
            parts = []
            for c in disp.elts:
                if c.value is None:
                    op = ast.Is() if pos else ast.IsNot()
                else:
                    op = ast.Eq() if pos else ast.NotEq()
                parts.append(ast.copy_location(ast.Compare(
                    left=_copy.deepcopy(node.left), ops=[op],
                    comparators=[c]), node))
            if len(parts) == 1:
                return parts[0]
            return ast.copy_location(ast.BoolOp(
                op=ast.Or() if pos else ast.And(), values=parts), node)
    _Membership().visit(tree)

    # struct.unpack(F, x[a:a + K]) with K the size of the constant format F
    # reads struct.unpack_from(F, x, a)  (x[:K]: no offset): the same values,
    # and a struct.error in both when fewer than K bytes are there
    import struct as _struct

    class _UnpackSlice(ast.NodeTransformer):
        def visit_Call(self, node):
            self.generic_visit(node)
            f = node.func
            if not (isinstance(f, ast.Attribute) and f.attr == "unpack" and
                    isinstance(f.value, ast.Name) and
                    f.value.id == "struct" and len(node.args) == 2 and
                    not node.keywords and
                    isinstance(node.args[0], ast.Constant) and
                    isinstance(node.args[0].value, (str, bytes)) and
                    isinstance(node.args[1], ast.Subscript) and
                    isinstance(node.args[1].slice, ast.Slice) and
                    node.args[1].slice.step is None):
                return node
            try:
                size = _struct.calcsize(node.args[0].value)
            except _struct.error:
                return node
            sl = node.args[1].slice
            lo, hi = sl.lower, sl.upper
            off = None

            def is_k(e):
                return isinstance(e, ast.Constant) and e.value == size and \
                    not isinstance(e.value, bool)
            if hi is None:
                return node
            if lo is None or (isinstance(lo, ast.Constant) and
                              lo.value == 0):
                if not is_k(hi):
                    return node
            elif isinstance(lo, ast.Constant) and isinstance(
                    lo.value, int) and isinstance(hi, ast.Constant) and \
                    isinstance(hi.value, int) and \
                    hi.value - lo.value == size and lo.value > 0:
                off = lo
            elif isinstance(hi, ast.BinOp) and isinstance(hi.op, ast.Add) \
                    and ((ast.dump(hi.left) == ast.dump(lo) and
                          is_k(hi.right)) or
                         (ast.dump(hi.right) == ast.dump(lo) and
                          is_k(hi.left))):
                off = lo
            else:
                return node
            new = ast.Call(
                func=ast.Attribute(value=f.value, attr="unpack_from",
                                   ctx=ast.Load()),
                args=[node.args[0], node.args[1].value] + (
                    [off] if off is not None else []), keywords=[])
            return ast.copy_location(new, node)
    _split_parallel_assignments(tree)
    _inline_method_aliases(tree)
    _inline_slice_objects(tree)
    _inline_local_constants(tree)
    _bool_flag_tests(tree)
    _hoist_walrus(tree)
    _struct_objects(tree)
    _UnpackSlice().visit(tree)
    ast.fix_missing_locations(tree)
    # ``while True:`` whose first statement is ``if <t>: break`` reads as
    # ``while not <t>:`` (no else clause on either)
    for w in ast.walk(tree):
        if isinstance(w, ast.While) and not w.orelse and \
                isinstance(w.test, ast.Constant) and w.test.value is True \
                and w.body and isinstance(w.body[0], ast.If) and \
                not w.body[0].orelse and len(w.body[0].body) == 1 and \
                isinstance(w.body[0].body[0], ast.Break):
            t = w.body[0].test
            if isinstance(t, ast.UnaryOp) and isinstance(t.op, ast.Not):
                nt = t.operand
            else:
                nt = ast.UnaryOp(op=ast.Not(), operand=t)
                ast.copy_location(nt, t)
            w.test = nt
            w.body = w.body[1:] or [ast.copy_location(ast.Pass(), w)]
    for fn in ast.walk(tree):
        if not isinstance(fn, (ast.FunctionDef, ast.AsyncFunctionDef)):
            continue
        loads = {}
        for n in ast.walk(fn):
            if isinstance(n, ast.Name) and isinstance(n.ctx, ast.Load):
                loads[n.id] = loads.get(n.id, 0) + 1
        # candidate pairs: ``t = <expr>`` directly followed by ``return t``
        pairs = {}
        for holder in ast.walk(fn):
            for field in ("body", "orelse", "finalbody"):
                body = getattr(holder, field, None)
                if not (isinstance(body, list) and len(body) >= 2):
                    continue
                a, b = body[-2], body[-1]
                if isinstance(a, ast.Assign) and len(a.targets) == 1 and \
                        isinstance(a.targets[0], ast.Name) and \
                        isinstance(b, ast.Return) and \
                        isinstance(b.value, ast.Name) and \
                        b.value.id == a.targets[0].id and \
                        a.targets[0].id not in set(
                            x.id for x in ast.walk(a.value)
                            if isinstance(x, ast.Name)):
                    pairs.setdefault(b.value.id, []).append((body, a, b))
        for name, ps in pairs.items():
            # the temporary is read by those returns and by nothing else
            if loads.get(name) != len(ps):
                continue
            for body, a, b in ps:
                r = ast.Return(value=a.value)
                ast.copy_location(r, a)
                r.end_lineno = getattr(b, "end_lineno", None)
                body[-2:] = [r]
    return tree


# --------------------------------------------------------------------------
# Program model
# --------------------------------------------------------------------------
def _detached(e):
    """A copy of an expression without the _parent links of its tree."""
    return ast.parse(ast.unparse(e), mode="eval").body


def _inline_new_class_constants(tree, known, numeric, par):
    """``_MAX = 126`` in a class body (a name the class of the reference tree
    did not have, bound once, never stored as an attribute anywhere in the
    module) reads as 126 where the methods of the class say ``self._MAX`` /
    ``cls._MAX`` / ``Class._MAX``."""
    stored = {n.attr for n in ast.walk(tree) if isinstance(n, ast.Attribute)
              and isinstance(n.ctx, (ast.Store, ast.Del))}

    def qual(c):
        q = [c.name]
        x = par.get(id(c))
        while x is not None and not isinstance(x, ast.Module):
            if isinstance(x, (ast.ClassDef, ast.FunctionDef,
                              ast.AsyncFunctionDef)):
                q.append(x.name)
            x = par.get(id(x))
        return ".".join(reversed(q))
    for cls in [c for c in ast.walk(tree) if isinstance(c, ast.ClassDef)]:
        cq = qual(cls)
        if cq not in known:
            continue            # a new class: read as it stands
        count = {}
        for st in cls.body:
            if isinstance(st, (ast.FunctionDef, ast.AsyncFunctionDef,
                               ast.ClassDef)):
                count[st.name] = count.get(st.name, 0) + 1
                continue
            for x in ast.walk(st):
                if isinstance(x, ast.Name) and isinstance(
                        x.ctx, (ast.Store, ast.Del)):
                    count[x.id] = count.get(x.id, 0) + 1
        use = {}
        for st in cls.body:
            if isinstance(st, ast.Assign) and len(st.targets) == 1 and \
                    isinstance(st.targets[0], ast.Name) and \
                    count.get(st.targets[0].id) == 1 and \
                    cq + "." + st.targets[0].id not in known and \
                    st.targets[0].id not in stored and numeric(st.value):
                use[st.targets[0].id] = _detached(st.value)
        if not use:
            continue

        class A(ast.NodeTransformer):
            def visit_Attribute(self, n):
                self.generic_visit(n)
                if isinstance(n.ctx, ast.Load) and n.attr in use and \
                        isinstance(n.value, ast.Name) and \
                        n.value.id in ("self", "cls", cls.name):
                    return ast.copy_location(_detached(use[n.attr]), n)
                return n
        for st in cls.body:
            if isinstance(st, (ast.FunctionDef, ast.AsyncFunctionDef)):
                st.body = [A().visit(s_) for s_ in st.body]
    ast.fix_missing_locations(tree)


def _inline_new_constants(tree, modname):
    """A module-level name the reference tree did not have, bound once to a
    number (literal / arithmetic over literals), reads as that number in the
    functions of the module that do not bind the name themselves - the
    module-level counterpart of reading new helper functions as nested
    ones: ``_ALL = 0xffff`` ... ``if sel == _ALL`` reads ``if sel == 65535``."""
    import copy as _copy
    known = _known_names().get(modname)
    if known is None:
        return

    def numeric(e):
        if isinstance(e, ast.Constant):
            # (any constant: a number, None, a truth value, a string)
            return True
        if isinstance(e, ast.BinOp) and isinstance(
                e.op, (ast.Add, ast.Sub, ast.Mult, ast.FloorDiv, ast.Mod,
                       ast.LShift, ast.RShift, ast.BitAnd, ast.BitOr,
                       ast.BitXor, ast.Pow)):
            return numeric(e.left) and numeric(e.right)
        if isinstance(e, ast.UnaryOp) and isinstance(
                e.op, (ast.USub, ast.UAdd, ast.Invert)):
            return numeric(e.operand)
        return False
    count = {}
    for st in tree.body:
        if isinstance(st, (ast.FunctionDef, ast.AsyncFunctionDef,
                           ast.ClassDef)):
            count[st.name] = count.get(st.name, 0) + 1
            continue
        for x in ast.walk(st):
            if isinstance(x, ast.Name) and isinstance(x.ctx, (ast.Store,
                                                               ast.Del)):
                count[x.id] = count.get(x.id, 0) + 1
    def display(e):
        # a literal table of numbers: (1, 2), [(1, 1), (0, 1)], {1: 2}
        if isinstance(e, (ast.Tuple, ast.List, ast.Set)):
            return bool(e.elts) and all(numeric(x) or display(x)
                                        for x in e.elts)
        if isinstance(e, ast.Dict):
            return bool(e.keys) and all(
                k is not None and numeric(k) and (numeric(v) or display(v))
                for k, v in zip(e.keys, e.values))
        return False

    def only_read(nm):
        # every use of the table in the module only looks at it
        for x in ast.walk(tree):
            if not (isinstance(x, ast.Name) and x.id == nm and
                    isinstance(x.ctx, ast.Load)):
                continue
            p = par.get(id(x))
            if isinstance(p, (ast.For, ast.comprehension)) and p.iter is x:
                continue
            if isinstance(p, ast.Compare) and x in p.comparators and all(
                    isinstance(o, (ast.In, ast.NotIn)) for o in p.ops):
                continue
            if isinstance(p, ast.Subscript) and p.value is x and \
                    isinstance(p.ctx, ast.Load):
                continue
            if isinstance(p, ast.Call) and x in p.args and isinstance(
                    p.func, ast.Name) and p.func.id in (
                        "len", "enumerate", "sorted", "tuple", "list", "set",
                        "frozenset", "dict", "sum", "min", "max", "zip",
                        "reversed", "iter"):
                continue
            if isinstance(p, ast.Attribute) and p.value is x and p.attr in (
                    "get", "items", "keys", "values", "index", "count") \
                    and isinstance(par.get(id(p)), ast.Call):
                continue
            return False
        return True
    par = {}
    for node in ast.walk(tree):
        for child in ast.iter_child_nodes(node):
            par[id(child)] = node
    consts = {}
    for st in tree.body:
        if isinstance(st, ast.Assign) and len(st.targets) == 1 and \
                isinstance(st.targets[0], ast.Name) and \
                count.get(st.targets[0].id) == 1 and \
                st.targets[0].id not in known and (
                    numeric(st.value) or
                    (display(st.value) and only_read(st.targets[0].id))):
            # (a detached copy: the nodes of the tree carry _parent links)
            consts[st.targets[0].id] = ast.parse(
                ast.unparse(st.value), mode="eval").body
    _inline_new_class_constants(tree, known, numeric, par)
    if not consts:
        return
    for n in ast.walk(tree):
        if isinstance(n, ast.Global) and any(nm in consts
                                             for nm in n.names):
            for nm in n.names:
                consts.pop(nm, None)
    for fn in ast.walk(tree):
        if not isinstance(fn, (ast.FunctionDef, ast.AsyncFunctionDef)):
            continue
        bound = set()
        for x in ast.walk(fn):
            if isinstance(x, ast.Name) and isinstance(x.ctx, (ast.Store,
                                                               ast.Del)):
                bound.add(x.id)
            elif isinstance(x, ast.arg):
                bound.add(x.arg)
        use = {k: v for k, v in consts.items() if k not in bound}
        if not use:
            continue

        class R(ast.NodeTransformer):
            def visit_Name(self, n):
                if isinstance(n.ctx, ast.Load) and n.id in use:
                    new = _detached(use[n.id])
                    for y in ast.walk(new):
                        ast.copy_location(y, n)
                    return new
                return n
        fn.body = [R().visit(s_) for s_ in fn.body]
    ast.fix_missing_locations(tree)
    for node in ast.walk(tree):
        for child in ast.iter_child_nodes(node):
            child._parent = node


_REF_PARAMS = None


def _ref_params():
    global _REF_PARAMS
    if _REF_PARAMS is None:
        path = os.path.join(os.path.dirname(os.path.abspath(__file__)),
                            "reference_params.json")
        try:
            with open(path) as f:
                _REF_PARAMS = json.load(f)
        except (IOError, OSError, ValueError):
            _REF_PARAMS = {}
    return _REF_PARAMS


def _fold_constants(tree):
    """Comparisons / ``not`` / ``and`` / ``or`` over constants are folded,
    and ``if`` / conditional expressions / ``while`` with a constant test
    reduced to the branch taken.  (Used after new parameters have been
    replaced by their defaults.)"""
    import operator as _op
    CMP = {ast.Eq: _op.eq, ast.NotEq: _op.ne, ast.Lt: _op.lt,
           ast.LtE: _op.le, ast.Gt: _op.gt, ast.GtE: _op.ge,
           ast.Is: _op.is_, ast.IsNot: _op.is_not}

    def const(e):
        return isinstance(e, ast.Constant)

    def pure(e):
        return all(isinstance(x, (ast.Name, ast.Constant, ast.Attribute,
                                  ast.Compare, ast.BoolOp, ast.UnaryOp,
                                  ast.expr_context, ast.cmpop, ast.boolop,
                                  ast.unaryop)) for x in ast.walk(e))

    class F(ast.NodeTransformer):
        def visit_Compare(self, n):
            self.generic_visit(n)
            if len(n.ops) == 1 and const(n.left) and \
                    const(n.comparators[0]) and type(n.ops[0]) in CMP:
                a, b = n.left.value, n.comparators[0].value
                if isinstance(n.ops[0], (ast.Is, ast.IsNot)) and not (
                        a is None or b is None or isinstance(a, bool) or
                        isinstance(b, bool)):
                    return n
                try:
                    v = CMP[type(n.ops[0])](a, b)
                except TypeError:
                    return n
                return ast.copy_location(ast.Constant(value=bool(v)), n)
            return n

        def visit_UnaryOp(self, n):
            self.generic_visit(n)
            if isinstance(n.op, ast.Not) and const(n.operand):
                return ast.copy_location(
                    ast.Constant(value=not n.operand.value), n)
            return n

        def visit_BoolOp(self, n):
            self.generic_visit(n)
            is_and = isinstance(n.op, ast.And)
            out = []
            for i, v in enumerate(n.values):
                if const(v):
                    t = bool(v.value)
                    if t == is_and and i < len(n.values) - 1:
                        continue        # True and x -> x ; False or x -> x
                    if t != is_and:
                        # short circuit: what follows is never evaluated
                        out.append(v)
                        break
                out.append(v)
            if not out:
                return n.values[-1]
            if len(out) == 1:
                return out[0]
            n.values = out
            return n

        def visit_IfExp(self, n):
            self.generic_visit(n)
            if const(n.test):
                return n.body if n.test.value else n.orelse
            return n

        def block(self, stmts):
            out = []
            for s_ in stmts:
                r = self.visit(s_)
                if r is None:
                    continue
                if isinstance(r, list):
                    out.extend(r)
                else:
                    out.append(r)
            return out

        def _test(self, t):
            # in a test, ``x and True`` / ``x or False`` is ``x``
            t = self.visit(t)
            while isinstance(t, ast.BoolOp) and const(t.values[-1]) and \
                    bool(t.values[-1].value) == isinstance(t.op, ast.And):
                t.values = t.values[:-1]
                if len(t.values) == 1:
                    t = t.values[0]
            # as a truth value, ``x and False`` is False and ``x or True``
            # is True when evaluating x has no effect
            if isinstance(t, ast.BoolOp) and const(t.values[-1]) and \
                    bool(t.values[-1].value) != isinstance(t.op, ast.And) \
                    and all(pure(x) for x in t.values[:-1]):
                t = ast.copy_location(ast.Constant(
                    value=bool(t.values[-1].value)), t)
            return t

        def visit_If(self, n):
            n.test = self._test(n.test)
            n.body = self.block(n.body) or [ast.copy_location(ast.Pass(),
                                                              n)]
            n.orelse = self.block(n.orelse)
            if const(n.test):
                return n.body if n.test.value else (n.orelse or None)
            return n

        def visit_While(self, n):
            n.test = self._test(n.test)
            n.body = self.block(n.body) or [ast.copy_location(ast.Pass(),
                                                              n)]
            n.orelse = self.block(n.orelse)
            if const(n.test) and not n.test.value:
                return n.orelse or None
            return n

        def generic_block_holder(self, n):
            for f in ("body", "orelse", "finalbody"):
                b = getattr(n, f, None)
                if isinstance(b, list) and b and isinstance(b[0], ast.stmt):
                    nb = self.block(b)
                    if not nb and f == "body":
                        nb = [ast.copy_location(ast.Pass(), n)]
                    setattr(n, f, nb)
            for f, v in ast.iter_fields(n):
                if f in ("body", "orelse", "finalbody"):
                    continue
                if isinstance(v, ast.AST):
                    setattr(n, f, self.visit(v))
                elif isinstance(v, list):
                    setattr(n, f, [self.visit(x) if isinstance(x, ast.AST)
                                   else x for x in v])
            return n

        def visit_FunctionDef(self, n):
            return self.generic_block_holder(n)
        visit_AsyncFunctionDef = visit_FunctionDef
        visit_For = visit_FunctionDef
        visit_With = visit_FunctionDef
        visit_Try = visit_FunctionDef
        visit_ExceptHandler = visit_FunctionDef
        visit_ClassDef = visit_FunctionDef
        visit_Module = visit_FunctionDef
    return F().visit(tree)


def _specialise_defaults(tree, modname, veto=()):
    """A parameter the reference function did not have, with a constant
    default (None, a truth value, a number, a string, an empty tuple), that
    the function never re-binds, is read at that default - the function as
    every existing caller sees it.  An attribute that nothing in the
    reference tree stored and that is now bound (once, in the package
    module) to such a specialised constant is read as the constant too
    (``self.backoff = backoff`` in __init__, ``if self.backoff > 0`` in a
    method).  Conditions that become constant are folded and the branches
    not taken dropped.  Returns {qualname: [parameters specialised]}: the
    uses of the new option are *not* analysed by the property's rules (the
    generic analyses read the full text)."""
    import copy as _copy
    ref = _ref_params()
    rp = ref.get("params", {}).get(modname)
    if rp is None:
        return {}
    ref_attrs = set(ref.get("attrs", []))
    done = {}

    def const_default(d):
        if isinstance(d, ast.Constant) and (
                d.value is None or isinstance(d.value, (bool, int, float,
                                                        str, bytes))):
            return d
        if isinstance(d, ast.Tuple) and not d.elts:
            return d
        return None

    def walk(node, prefix):
        for ch in ast.iter_child_nodes(node):
            if isinstance(ch, (ast.FunctionDef, ast.AsyncFunctionDef)):
                q = prefix + ch.name
                if q in rp:
                    spec_fn(ch, q)
                walk(ch, q + ".")
            elif isinstance(ch, ast.ClassDef):
                walk(ch, prefix + ch.name + ".")
            else:
                walk(ch, prefix)

    def spec_fn(fn, q):
        a = fn.args
        pos = a.posonlyargs + a.args
        defaults = dict(zip([x.arg for x in pos[len(pos) -
                                                len(a.defaults):]],
                            a.defaults))
        for x, d in zip(a.kwonlyargs, a.kw_defaults):
            if d is not None:
                defaults[x.arg] = d
        new = [x for x in defaults if x not in rp[q]]
        use = {}
        for pname in new:
            d = const_default(defaults[pname])
            if d is None:
                continue
            rebound = any(isinstance(n, ast.Name) and n.id == pname and
                          isinstance(n.ctx, (ast.Store, ast.Del))
                          for n in ast.walk(fn)) or any(
                isinstance(n, (ast.Global, ast.Nonlocal)) and
                pname in n.names for n in ast.walk(fn))
            if rebound or (q, pname) in veto:
                # (vetoed: some call in the package passes the parameter -
                # the package itself uses the new option)
                continue
            use[pname] = d
        if not use:
            return
        done[q] = sorted(use)

        class R(ast.NodeTransformer):
            def visit_Name(self, n):
                if isinstance(n.ctx, ast.Load) and n.id in use:
                    return ast.copy_location(_detached(use[n.id]), n)
                return n

            def visit_Lambda(self, n):
                if any(x.arg in use for x in ast.walk(n.args)
                       if isinstance(x, ast.arg)):
                    return n
                return self.generic_visit(n)

            def visit_FunctionDef(self, n):
                if n is not fn and any(
                        x.arg in use for x in ast.walk(n.args)
                        if isinstance(x, ast.arg)):
                    return n
                return self.generic_visit(n)
        fn.body = [R().visit(s_) for s_ in fn.body]
    walk(tree, "")
    # new attributes bound once to a constant
    stores = {}
    for n in ast.walk(tree):
        if isinstance(n, ast.Attribute) and isinstance(n.ctx, (ast.Store,
                                                                ast.Del)):
            stores.setdefault(n.attr, []).append(n)
    attr_const = {}
    parents = {}
    for x in ast.walk(tree):
        for c in ast.iter_child_nodes(x):
            parents[id(c)] = x
    for attr, sts in stores.items():
        if attr in ref_attrs or len(sts) != 1:
            continue
        st = parents.get(id(sts[0]))
        if isinstance(st, ast.Assign) and len(st.targets) == 1 and \
                st.targets[0] is sts[0] and isinstance(
                    sts[0].value, ast.Name) and \
                sts[0].value.id in ("self", "cls") and \
                const_default(st.value) is not None:
            attr_const[attr] = st.value
    if attr_const:
        class A(ast.NodeTransformer):
            def visit_Attribute(self, n):
                self.generic_visit(n)
                if isinstance(n.ctx, ast.Load) and n.attr in attr_const and \
                        isinstance(n.value, ast.Name) and \
                        n.value.id in ("self", "cls"):
                    return ast.copy_location(
                        _detached(attr_const[n.attr]), n)
                return n
        A().visit(tree)
        done["<attributes>"] = sorted(attr_const)
    if done:
        _fold_constants(tree)
        ast.fix_missing_locations(tree)
    return done


class Module(object):
    def __init__(self, name, path, src, specialise=True, veto=()):
        self.name = name
        self.path = path
        self.src = src
        self.veto = frozenset(veto)
        self.tree = _normalise(ast.parse(src, filename=path))
        _inline_new_constants(self.tree, name)
        self.new_params = {}    # qualname -> [parameter read at its default]
        if specialise and not os.environ.get("RIGVERIF_NO_SPECIALISE"):
            self.new_params = _specialise_defaults(self.tree, name,
                                                   self.veto)
        self.lines = src.splitlines()
        self.defs = {}      # qualname -> FunctionDef/ClassDef
        self.imports = {}   # local name -> dotted target ("pkg.mod" or
        #                     "pkg.mod:attr")
        self._index()

    def _index(self):
        for node in ast.walk(self.tree):
            for child in ast.iter_child_nodes(node):
                child._parent = node
        self.tree._parent = None

        def visit(node, prefix):
            for child in ast.iter_child_nodes(node):
                if isinstance(child, (ast.FunctionDef, ast.ClassDef,
                                      ast.AsyncFunctionDef)):
                    q = prefix + child.name
                    # Keep the first definition but remember later ones
                    if q in self.defs:
                        self.defs.setdefault("__dups__", []).append(q)
                    else:
                        self.defs[q] = child
                    child._qualname = q
                    child._module = self
                    visit(child, q + ".")
                else:
                    visit(child, prefix)
        visit(self.tree, "")

        pkg = self.name.split(".")
        is_pkg = os.path.basename(self.path) == "__init__.py"
        for node in ast.walk(self.tree):
            if isinstance(node, ast.Import):
                for a in node.names:
                    local = a.asname or a.name.split(".")[0]
                    target = a.name if a.asname else a.name.split(".")[0]
                    self.imports[local] = target
            elif isinstance(node, ast.ImportFrom):
                if node.level:
                    base = pkg if is_pkg else pkg[:-1]
                    if node.level > 1:
                        base = base[:len(base) - (node.level - 1)]
                    mod = ".".join(base + ([node.module] if node.module
                                           else []))
                else:
                    mod = node.module
                for a in node.names:
                    self.imports[a.asname or a.name] = mod + ":" + a.name


class Program(object):
    """All modules of the ``rig`` package as currently on disk."""

    def __init__(self, repo=None):
        self.repo = repo or REPO
        self.modules = {}
        root = os.path.join(self.repo, "rig")
        if not os.path.isdir(root):
            raise AnalysisError("no rig/ package under %s" % self.repo)
        for dirpath, dirnames, filenames in os.walk(root):
            dirnames[:] = sorted(d for d in dirnames if d != "__pycache__")
            for fn in sorted(filenames):
                if not fn.endswith(".py"):
                    continue
                path = os.path.join(dirpath, fn)
                rel = os.path.relpath(path, self.repo)[:-3]
                parts = rel.split(os.sep)
                if parts[-1] == "__init__":
                    parts = parts[:-1]
                name = ".".join(parts)
                with open(path, "rb") as f:
                    src = f.read().decode("utf-8")
                try:
                    self.modules[name] = Module(name, path, src)
                except SyntaxError as e:
                    raise AnalysisError("cannot parse %s: %s" % (path, e))
        self.consulted = set()
        self._veto_used_options()

    def _veto_used_options(self):
        """A new parameter that some call in the package passes (by keyword,
        or by position) is not read at its default: the package itself uses
        the new option.  Modules concerned are loaded again with the veto."""
        cands = {}
        for name, m in self.modules.items():
            for q, ps in m.new_params.items():
                if q == "<attributes>":
                    continue
                d = None
                # the def node, to know the parameter's position
                for n in ast.walk(m.tree):
                    if isinstance(n, (ast.FunctionDef,
                                      ast.AsyncFunctionDef)) and \
                            getattr(n, "_qualname", None) == q:
                        d = n
                if d is None:
                    continue
                names = [x.arg for x in d.args.posonlyargs + d.args.args]
                if names and names[0] in ("self", "cls"):
                    names = names[1:]
                fname = d.name
                if fname in ("__init__", "__new__") and "." in q:
                    fname = q.split(".")[-2]
                a_ = d.args
                pos_ = a_.posonlyargs + a_.args
                dflt = dict(zip([x.arg for x in pos_[len(pos_) -
                                                     len(a_.defaults):]],
                                a_.defaults))
                for x, dv in zip(a_.kwonlyargs, a_.kw_defaults):
                    if dv is not None:
                        dflt[x.arg] = dv
                for p_ in ps:
                    cands.setdefault(fname, []).append(
                        (name, q, p_, names.index(p_) if p_ in names
                         else None, ast.dump(dflt[p_]) if p_ in dflt
                         else None))
        if not cands:
            return
        veto = {}
        for m in self.modules.values():
            for c in ast.walk(m.tree):
                if not isinstance(c, ast.Call):
                    continue
                f = c.func
                nm = f.id if isinstance(f, ast.Name) else (
                    f.attr if isinstance(f, ast.Attribute) else None)
                if nm not in cands:
                    continue
                n_pos = len([a for a in c.args
                             if not isinstance(a, ast.Starred)])
                kws = {k.arg: k.value for k in c.keywords}
                # the caller's own new parameters (forwarding one of them
                # is the default path handing its default on)
                host = getattr(c, "_parent", None)
                while host is not None and not isinstance(
                        host, (ast.FunctionDef, ast.AsyncFunctionDef)):
                    host = getattr(host, "_parent", None)
                own_new = set(m.new_params.get(getattr(
                    host, "_qualname", None), ())) if host is not None \
                    else set()

                def forwarded(v, dd=None):
                    # the caller's own new parameter handed on, or the
                    # default itself written out
                    return (isinstance(v, ast.Name) and v.id in own_new) or \
                        (dd is not None and ast.dump(v) == dd)
                for mod_, q, p_, idx, dd in cands[nm]:
                    hit = False
                    if p_ in kws and not forwarded(kws[p_], dd):
                        hit = True
                    elif idx is not None and n_pos > idx and \
                            not forwarded(c.args[idx], dd):
                        hit = True
                    elif None in kws:
                        hit = True
                    if hit:
                        veto.setdefault(mod_, set()).add((q, p_))
        for mod_, vs in veto.items():
            m = self.modules[mod_]
            self.modules[mod_] = Module(mod_, m.path, m.src, veto=vs)

    def full(self, name):
        """The module as written - without the reading of new parameters at
        their defaults (the generic analyses judge the whole text,
        including the code of a new option)."""
        m = self.modules.get(name)
        if m is None:
            return None
        if not m.new_params:
            return m
        cache = self.__dict__.setdefault("_full_modules", {})
        if name not in cache:
            cache[name] = Module(name, m.path, m.src, specialise=False)
        return cache[name]

    # -- anchors -----------------------------------------------------------
    def module(self, name):
        if name not in self.modules:
            raise AnchorError("anchor vanished: module %s" % name)
        self.consulted.add(name)
        return self.modules[name]

    def has(self, spec):
        mod, _, qual = spec.partition(":")
        return mod in self.modules and qual in self.modules[mod].defs

    def get(self, spec):
        """``"rig.x.y:Class.method"`` -> the def node (AnalysisError if it has
        vanished)."""
        mod, _, qual = spec.partition(":")
        m = self.module(mod)
        if qual not in m.defs:
            # a private helper or a function nested in another one is an
            # implementation detail: its disappearance (inlined, renamed,
            # merged) leaves the rules that read it without a verdict; a
            # public function the property is anchored in must exist
            parts = qual.split(".")
            last = parts[-1]
            private = last.startswith("_") and not last.endswith("__")
            parent = ".".join(parts[:-1])
            nested = bool(parent) and (
                isinstance(m.defs.get(parent), ast.FunctionDef) or
                _known_names().get(mod, {}).get(parent) == "f")
            raise AnchorError("anchor vanished: %s" % spec,
                              internal=private or nested)
        node = m.defs[qual]
        if isinstance(node, (ast.FunctionDef, ast.AsyncFunctionDef)):
            self._nest_new_helpers(node, m)
            _FETCHED.append(node)
        return node

    # -- helpers introduced since the reference tree ---------------------------
    def _nest_new_helpers(self, fn, m, depth=0):
        """Functions of the same module / methods of the same class that the
        reference tree did not have and that ``fn`` calls are analysed as if
        they were nested functions of ``fn`` (a copy of the helper is put at
        the top of fn's body, a method call self.h(a) is read as h(self, a)):
        the rules then see through them exactly as they see through nested
        helpers."""
        if getattr(fn, "_nested_done", False):
            return
        fn._nested_done = True
        known = _known_names().get(m.name)
        if known is None:
            return
        cls = getattr(fn, "_parent", None)
        while cls is not None and not isinstance(cls, ast.ClassDef):
            if isinstance(cls, (ast.FunctionDef, ast.AsyncFunctionDef)):
                # fn is itself nested: its host is processed instead
                cls = None
                break
            cls = getattr(cls, "_parent", None)
        if isinstance(getattr(fn, "_parent", None), (ast.FunctionDef,
                                                     ast.AsyncFunctionDef)):
            return
        local_names = set()
        for n in ast.walk(fn):
            if isinstance(n, ast.Name) and isinstance(n.ctx, ast.Store):
                local_names.add(n.id)
            elif isinstance(n, ast.arg):
                local_names.add(n.arg)
        done = {}
        new_classes = set()
        work = [fn]
        rounds = 0
        while work and rounds < 4:
            rounds += 1
            nxt = []
            for host in work:
                for c in list(ast.walk(host)):
                    if not isinstance(c, ast.Call):
                        continue
                    target = None
                    method = False
                    # a class the reference tree did not have, instantiated
                    # or called through (NewClass(...), NewClass.make(...)):
                    # not followed; what the rules report about this
                    # function is withheld
                    cq = c.func.id if isinstance(c.func, ast.Name) else (
                        c.func.value.id if isinstance(c.func, ast.Attribute)
                        and isinstance(c.func.value, ast.Name) else None)
                    if cq is not None and cq not in local_names:
                        dcl = m.defs.get(cq)
                        kn = known
                        if dcl is None and ":" in m.imports.get(cq, ""):
                            mod2, _, name2 = m.imports[cq].partition(":")
                            m2 = self.modules.get(mod2)
                            dcl = m2.defs.get(name2) if m2 is not None \
                                else None
                            kn = _known_names().get(mod2)
                            cq2 = name2
                        else:
                            cq2 = cq
                        if isinstance(dcl, ast.ClassDef) and kn is not None \
                                and cq2 not in kn:
                            new_classes.add(cq)
                    if isinstance(c.func, ast.Name):
                        q = c.func.id
                        d = m.defs.get(q)
                        if isinstance(d, ast.FunctionDef) and \
                                q not in known and d is not fn and \
                                isinstance(d._parent, ast.Module):
                            target = d
                        elif d is None and ":" in m.imports.get(q, ""):
                            # ... or imported from another module of the
                            # package, where the reference tree did not have
                            # it either
                            mod2, _, name2 = m.imports[q].partition(":")
                            m2 = self.modules.get(mod2)
                            d2 = m2.defs.get(name2) if m2 is not None \
                                else None
                            known2 = _known_names().get(mod2)
                            if isinstance(d2, ast.FunctionDef) and \
                                    known2 is not None and \
                                    name2 not in known2 and \
                                    isinstance(d2._parent, ast.Module):
                                self.consulted.add(mod2)
                                target = d2
                    elif isinstance(c.func, ast.Attribute) and \
                            isinstance(c.func.value, ast.Name) and \
                            c.func.value.id == "self" and cls is not None:
                        q = "%s.%s" % (cls._qualname, c.func.attr)
                        d = m.defs.get(q)
                        if isinstance(d, ast.FunctionDef) and \
                                q not in known and d is not fn and \
                                d._parent is cls:
                            decs = [ast.unparse(x) for x in d.decorator_list]
                            if all(x == "staticmethod" for x in decs):
                                target = d
                                method = "staticmethod" not in decs
                    if target is None and isinstance(c.func, ast.Attribute) \
                            and not (isinstance(c.func.value, ast.Name) and
                                     c.func.value.id == "self"):
                        # a method the reference tree did not have, called
                        # on another object (packet._unpack_args(...)): not
                        # followed; reports about this function are withheld
                        nm_ = c.func.attr
                        if any(q_.endswith("." + nm_) and q_ not in known
                               and isinstance(m.defs[q_], ast.FunctionDef)
                               for q_ in m.defs if q_ != "__dups__") and \
                                not any(q_ == nm_ or q_.endswith("." + nm_)
                                        for q_ in known) and \
                                getattr(host, "name", None) != nm_ and \
                                not any(
                                    isinstance(c2, ast.Call) and
                                    isinstance(c2.func, ast.Attribute) and
                                    c2.func.attr == nm_ and
                                    isinstance(c2.func.value, ast.Name) and
                                    c2.func.value.id == "self"
                                    for c2 in ast.walk(fn)):
                            # (not when the same method is also called on
                            # self - it is followed there - or calls itself)
                            try:
                                new_classes.add(ast.unparse(c.func))
                            except Exception:
                                new_classes.add(nm_)
                    if target is None or target.name in local_names:
                        continue
                    if any(isinstance(x, (ast.Yield, ast.YieldFrom))
                           for x in ast.walk(target)) and False:
                        continue
                    if id(target) not in done:
                        import copy
                        cp = copy.deepcopy(target)
                        cp.decorator_list = []
                        cp._virtual = True
                        cp._origin = target
                        done[id(target)] = cp
                        nxt.append(cp)
                    if isinstance(c.func, ast.Attribute):
                        recv = c.func.value
                        c.func = ast.copy_location(
                            ast.Name(id=target.name, ctx=ast.Load()), c.func)
                        if method:
                            c.args.insert(0, recv)
            work = nxt
        fn._new_classes = sorted(new_classes)
        if not done:
            return
        pos = 0
        if fn.body and isinstance(fn.body[0], ast.Expr) and isinstance(
                fn.body[0].value, ast.Constant) and isinstance(
                    fn.body[0].value.value, str):
            pos = 1
        fn.body[pos:pos] = list(done.values())
        for node in ast.walk(fn):
            for child in ast.iter_child_nodes(node):
                child._parent = node
        for cp in done.values():
            cp._qualname = "%s.%s" % (fn._qualname, cp.name)
            cp._module = m
            m.defs.setdefault(cp._qualname, cp)

    def functions(self, modname):
        m = self.module(modname)
        return [(q, n) for q, n in m.defs.items()
                if isinstance(n, ast.FunctionDef)]

    def digest(self):
        h = hashlib.sha256()
        for name in sorted(self.consulted):
            h.update(name.encode())
            h.update(self.modules[name].src.encode())
        return h.hexdigest()[:16]

    def read_data(self, rel):
        path = os.path.join(self.repo, rel)
        if not os.path.exists(path):
            raise AnchorError("anchor vanished: data file %s" % rel)
        with open(path, "rb") as f:
            return f.read()


def where(node):
    """file:line of a node (for messages only; never used as a key)."""
    n = node
    while n is not None and not isinstance(n, ast.Module):
        n = getattr(n, "_parent", None)
    mod = None
    # Walk up to a def carrying _module
    m = node
    while m is not None:
        if hasattr(m, "_module"):
            mod = m._module
            break
        m = getattr(m, "_parent", None)
    path = mod.path if mod else "?"
    return "%s:%s" % (path, getattr(node, "lineno", "?"))


def enclosing_def(node):
    n = getattr(node, "_parent", None)
    while n is not None and not isinstance(
            n, (ast.FunctionDef, ast.AsyncFunctionDef)):
        n = getattr(n, "_parent", None)
    return n


def _without_docstrings(node):
    """Shallow copies of def/class nodes with the docstring statement
    removed (recursively), so that text searches never match documentation."""
    if not isinstance(node, (ast.FunctionDef, ast.AsyncFunctionDef,
                             ast.ClassDef)):
        return node
    body = list(node.body)
    if body and isinstance(body[0], ast.Expr) and \
            isinstance(body[0].value, ast.Constant) and \
            isinstance(body[0].value.value, str):
        body = body[1:] or [ast.Pass()]
    body = [_without_docstrings(b) for b in body]
    new = type(node)(**{f: getattr(node, f) for f in node._fields
                        if f != "body"}, body=body)
    return ast.copy_location(new, node)


def unparse(node):
    if node is None:
        return "None"
    if isinstance(node, str):
        return node
    if isinstance(node, (ast.FunctionDef, ast.AsyncFunctionDef,
                         ast.ClassDef)):
        node = _without_docstrings(node)
        return " ".join(ast.unparse(ast.fix_missing_locations(node)).split())
    return " ".join(ast.unparse(node).split())


# --------------------------------------------------------------------------
# Rewrite distance from the reference tree
# --------------------------------------------------------------------------
REWRITE_LIMIT = int(os.environ.get("RIGVERIF_REWRITE_LIMIT", "12"))


def heavily_rewritten(dist, n_old):
    """More than REWRITE_LIMIT statements of the function (and of the new
    helpers it calls) are not statements of the reference function.  The
    limit was chosen on the kept changes: no kept breaking change that a
    rule reports touches that many statements of the function the report
    is about (their median is 3 changed lines), the kept refactorings'
    median is 25 changed lines.  A share of the function's size was tried
    as a second criterion and dropped: small functions rewritten wholesale
    by a breaking change were withheld."""
    return dist is not None and dist > REWRITE_LIMIT
_REF_BODIES = None
_PRISTINE = {}


def stmt_signatures(fn):
    """One string per statement of fn (nested functions included, docstrings
    and the statements of ``_virtual`` helper copies excluded): the unparsed
    text of a simple statement, the header of a compound one."""
    out = []
    todo = list(fn.body)
    first = True
    while todo:
        s = todo.pop()
        if getattr(s, "_virtual", False):
            continue
        if isinstance(s, ast.Expr) and isinstance(s.value, ast.Constant) \
                and isinstance(s.value.value, str):
            continue
        if isinstance(s, (ast.FunctionDef, ast.AsyncFunctionDef,
                          ast.ClassDef)):
            out.append("def %s(%s)" % (s.name, ast.unparse(s.args)
                                       if hasattr(s, "args") else ""))
            todo.extend(s.body)
        elif isinstance(s, (ast.If, ast.While)):
            out.append("%s %s" % (type(s).__name__, ast.unparse(s.test)))
            todo.extend(s.body + s.orelse)
        elif isinstance(s, (ast.For, ast.AsyncFor)):
            out.append("for %s in %s" % (ast.unparse(s.target),
                                         ast.unparse(s.iter)))
            todo.extend(s.body + s.orelse)
        elif isinstance(s, (ast.With, ast.AsyncWith)):
            out.append("with %s" % ", ".join(ast.unparse(i)
                                             for i in s.items))
            todo.extend(s.body)
        elif isinstance(s, ast.Try):
            for h in s.handlers:
                out.append("except %s" % (ast.unparse(h.type)
                                          if h.type else ""))
                todo.extend(h.body)
            todo.extend(s.body + s.orelse + s.finalbody)
        elif hasattr(ast, "Match") and isinstance(s, ast.Match):
            out.append("match %s" % ast.unparse(s.subject))
            for c in s.cases:
                todo.extend(c.body)
        else:
            try:
                out.append(" ".join(ast.unparse(s).split()))
            except Exception:
                out.append(type(s).__name__)
    return out


def _ref_bodies():
    global _REF_BODIES
    if _REF_BODIES is None:
        path = os.path.join(os.path.dirname(os.path.abspath(__file__)),
                            "reference_bodies.json")
        try:
            with open(path) as f:
                _REF_BODIES = json.load(f)
        except (IOError, OSError, ValueError):
            _REF_BODIES = {}
    return _REF_BODIES


def _pristine(program, modname):
    """A fresh parse of the module (the working tree of a Module is edited
    by _nest_new_helpers and by rules that unroll loops)."""
    cache = program.__dict__.setdefault("_pristine_modules", {})
    if modname not in cache:
        m = program.modules[modname]
        cache[modname] = Module(modname, m.path, m.src)
    return cache[modname]


def rewrite_distance(program, modname, qualname, _depth=0, _seen=None):
    """(number of statements of the current function - and of the functions
    it calls that the reference tree did not have - that the reference
    function does not contain, number of statements of the reference
    function).  (None, None) when there is no reference to compare with."""
    ref = _ref_bodies()
    if not ref or modname not in program.modules:
        return None, None
    m = _pristine(program, modname)
    fn = m.defs.get(qualname)
    if not isinstance(fn, (ast.FunctionDef, ast.AsyncFunctionDef)):
        return None, None
    _seen = _seen if _seen is not None else set()
    if (modname, qualname) in _seen:
        return 0, 0
    _seen.add((modname, qualname))
    cur = stmt_signatures(fn)
    old = list(ref.get(modname, {}).get(qualname, []))
    n_old = len(old)
    dist = 0
    for sig in cur:
        if sig in old:
            old.remove(sig)
        else:
            dist += 1
    # functions the reference tree did not have, called from here
    known = _known_names().get(modname, {})
    cls = qualname.rsplit(".", 1)[0] if "." in qualname else None
    if _depth < 3:
        for c in ast.walk(fn):
            if not isinstance(c, ast.Call):
                continue
            q = None
            if isinstance(c.func, ast.Name):
                q = c.func.id
            elif isinstance(c.func, ast.Attribute) and isinstance(
                    c.func.value, ast.Name) and cls is not None and \
                    c.func.value.id in ("self", "cls", cls):
                q = cls + "." + c.func.attr
            if q is None:
                continue
            if q in m.defs and q not in known and isinstance(
                    m.defs[q], (ast.FunctionDef, ast.AsyncFunctionDef)):
                d2, _ = rewrite_distance(program, modname, q, _depth + 1,
                                         _seen)
                dist += d2 or 0
            elif q not in m.defs and ":" in m.imports.get(q, ""):
                mod2, _, nm2 = m.imports[q].partition(":")
                if mod2 in program.modules and nm2 not in \
                        _known_names().get(mod2, {nm2: 1}):
                    d2, _ = rewrite_distance(program, mod2, nm2,
                                             _depth + 1, _seen)
                    dist += d2 or 0
    return dist, n_old


def finding_function(program, node, instance):
    """(module, qualname) of the outermost function a finding is about."""
    n = node
    top = None
    mod = None
    while n is not None:
        if isinstance(n, (ast.FunctionDef, ast.AsyncFunctionDef)) and \
                not getattr(n, "_virtual", False) and \
                hasattr(n, "_qualname"):
            top = n
        if hasattr(n, "_module"):
            mod = n._module
        n = getattr(n, "_parent", None)
    if top is not None and getattr(top, "_module", None) is not None:
        # the outermost def that is a function (methods keep Class.method)
        q = top._qualname
        m = top._module
        # climb to the host if this def is nested in another function
        parts = q.split(".")
        for i in range(1, len(parts)):
            host = ".".join(parts[:i])
            if isinstance(m.defs.get(host), (ast.FunctionDef,
                                             ast.AsyncFunctionDef)):
                q = host
                break
        return m.name, q
    if isinstance(instance, str) and ":" in instance:
        modname, _, q = instance.partition(":")
        m = program.modules.get(modname)
        if m is not None:
            parts = q.split(".")
            for i in range(1, len(parts) + 1):
                host = ".".join(parts[:i])
                if isinstance(m.defs.get(host), (ast.FunctionDef,
                                                 ast.AsyncFunctionDef)):
                    return modname, host
    return None


# --------------------------------------------------------------------------
# Reports
# --------------------------------------------------------------------------
class Finding(object):
    def __init__(self, prop, rule, instance, construct, message, node=None,
                 positive=False):
        self.positive = positive
        self.node = node
        self.prop = prop
        self.rule = rule
        self.instance = instance      # module:qualname of the offending def
        self.construct = construct    # normalised construct (no line number)
        self.message = message
        self.where = where(node) if node is not None else ""

    def key(self):
        return (self.prop, self.rule, self.instance, self.construct)

    def as_dict(self):
        return dict(property=self.prop, rule=self.rule, instance=self.instance,
                    construct=self.construct, message=self.message,
                    where=self.where)


class Report(object):
    """Collects, for one property, every obligation evaluated, and whether it
    was discharged.  A rule calls ``ok``/``bad`` once per rule instance."""

    def __init__(self, prop, tier, quiet=False):
        self.prop = prop
        self.tier = tier
        self.quiet = quiet      # self-test run: no output, no evidence
        self.obligations = []   # (rule, instance, text, ok)
        self.findings = []
        self.notes = []
        self.assumptions = []
        self.counts = {}
        self.floors = {}
        self.selftests = []     # (name, as expected?, kind)
        self.undecided_rules = []   # ([rule ids], reason)
        self.t0 = _T0
        self.current_rule = None

    # a rule instance that holds
    def ok(self, rule, instance, text, node=None):
        self.obligations.append(dict(rule=rule, instance=instance, fact=text,
                                     where=where(node) if node is not None
                                     else "", ok=True))
        self.counts[rule] = self.counts.get(rule, 0) + 1

    # a rule instance that is violated
    def bad(self, rule, instance, construct, message, node=None,
            positive=False):
        """``positive``: the finding is a contradiction derived from what the
        code does (a value bound to the wrong parameter, an argument changed
        in place, a name nothing binds) rather than the absence of something
        the rule expected to find; only the latter kind is withheld in
        functions rewritten since the reference tree."""
        self.obligations.append(dict(rule=rule, instance=instance,
                                     fact=message,
                                     where=where(node) if node is not None
                                     else "", ok=False))
        self.counts[rule] = self.counts.get(rule, 0) + 1
        self.findings.append(Finding(self.prop, rule, instance, construct,
                                     message, node, positive))

    def check(self, cond, rule, instance, text, construct=None, node=None,
              fail=None, positive=False):
        if cond:
            self.ok(rule, instance, text, node)
        else:
            self.bad(rule, instance, construct or text,
                     fail or ("does not hold: " + text), node,
                     positive=positive)
        return bool(cond)

    def floor(self, rule, n):
        """Require at least n instances of this rule to have been evaluated."""
        self.floors[rule] = n

    def undecided(self, rules, reason):
        """A rule met code whose shape it cannot analyse (the anchors exist).
        It gives no verdict: neither 'holds' nor 'violated'.  Reported on its
        own line and in the evidence; the exit code is not affected and the
        rule's floor is waived."""
        if isinstance(rules, str):
            rules = [rules]
        self.undecided_rules.append((list(rules), reason))

    def _withhold(self, rules, fn, n0, f0):
        """Violations a rule reports about a function that has been split
        into helper functions the reference tree did not have are withheld
        (the rule becomes undecided) unless the rule is written to follow
        such helpers (``fn.helper_aware``): its reading of a restructured
        function is not reliable enough to raise an alarm."""
        if len(self.findings) == n0:
            return
        aware = getattr(fn, "helper_aware", False)
        split = {}
        for f in _FETCHED[f0:]:
            # (a rule that follows helper functions still does not follow
            # the methods of a class introduced since)
            names = ([] if aware else sorted(
                h.name for h in ast.walk(f)
                if getattr(h, "_virtual", False))) + \
                list(getattr(f, "_new_classes", []))
            if names and getattr(f, "_module", None) is not None:
                split["%s:%s" % (f._module.name, f._qualname)] = names
        if not split:
            return
        keep, held = self.findings[:n0], []

        def owner(inst):
            # the split function itself or a function nested in it
            for k in split:
                if inst == k or inst.startswith(k + "."):
                    return k
            return None
        for fd in self.findings[n0:]:
            (held if owner(fd.instance) and not fd.positive
             else keep).append(fd)
        if not held:
            return
        self.findings = keep
        if os.environ.get("RIGVERIF_SHOW_WITHHELD"):
            for fd in held:
                print("WITHHELD %s %s: %s" % (fd.rule, fd.instance,
                                              fd.message))
        for fd in held:
            for ob in self.obligations:
                if ob.get("ok") is False and ob["rule"] == fd.rule and \
                        ob["instance"] == fd.instance and \
                        ob["fact"] == fd.message:
                    ob["ok"] = None
        if isinstance(rules, str):
            rules = [rules]
        inst = sorted(set(fd.instance for fd in held))
        self.undecided(sorted(set(fd.rule for fd in held)),
                       "%d report(s) about %s withheld: the function now "
                       "delegates to helper(s) %s that the "
                       "reference tree did not have and this rule does not "
                       "follow" % (len(held), ", ".join(inst), ", ".join(
                           n for i in inst for n in split[owner(i)])))

    def guard(self, rules, fn, *args, **kw):
        """Run one rule function; an AnalysisError that is not a vanished
        anchor (or an exception inside the rule on a shape it does not
        understand) makes the rule undecided instead of aborting the whole
        check."""
        if os.environ.get("RIGVERIF_STRICT"):
            return fn(*args, **kw)
        n0, f0 = len(self.findings), len(_FETCHED)
        try:
            try:
                return fn(*args, **kw)
            finally:
                self._withhold(rules, fn, n0, f0)
        except AnchorError as e:
            if not e.internal:
                raise
            self.undecided(rules, str(e))
        except AnalysisError as e:
            self.undecided(rules, str(e))
        except RecursionError:
            self.undecided(rules, "analysis too deep")
        except Exception as e:      # noqa: a shape the rule did not foresee
            import traceback
            tb = traceback.extract_tb(e.__traceback__)[-1]
            self.undecided(rules, "rule could not process this code (%s: %s "
                           "at %s:%d)" % (type(e).__name__, e,
                                          os.path.basename(tb.filename),
                                          tb.lineno))
        return None

    def note(self, text):
        self.notes.append(text)

    def assume(self, text):
        if text not in self.assumptions:
            self.assumptions.append(text)


def load_known():
    path = os.path.join(VERIF, "known_findings.json")
    if not os.path.exists(path):
        return {"known": [], "fixed": []}
    with open(path) as f:
        return json.load(f)


def _is_reference(prop, program):
    """Is the source consulted by this check byte-identical to the tree the
    rules were confirmed on (rigverif/reference_digests.json)?"""
    path = os.path.join(os.path.dirname(os.path.abspath(__file__)),
                        "reference_digests.json")
    try:
        with open(path) as f:
            ref = json.load(f)
    except (IOError, OSError, ValueError):
        return True
    return ref.get(prop) in (None, program.digest())


def _withhold_rewritten(report, program):
    """Findings that say 'the expected construct was not found / could not
    be shown' about a function that differs from the reference tree in more
    than REWRITE_LIMIT statements are withheld: the rule was confirmed to
    read the reference form completely, and near it the absence of an
    expected construct means it was removed; in a function rewritten to
    that extent it more often means the construct is spelt in a way the
    rule does not read.  No verdict then (UNDECIDED), never an alarm."""
    if REWRITE_LIMIT < 0 or not report.findings:
        return
    keep, held = [], {}
    cache = {}
    # a value that was compared with the expected one and contains a part
    # the engines do not interpret (an "opaque:" construct, the result of a
    # "call:" they do not follow): two different normal forms are then not
    # evidence of two different values
    import re as _re
    opaque = []
    for fd in list(report.findings):
        # (the length of an uninterpreted input - len(f.read()) - is a
        # plain unknown quantity, not an unread expression)
        text_ = _re.sub(r"len\(call:[^()]*\)", "len(_)", fd.construct or "")
        if not fd.positive and not os.environ.get(
                "RIGVERIF_NO_OPAQUE_GATE") and _re.search(
                    r"\b(opaque|call):", text_):
            opaque.append(fd)
    if opaque:
        report.findings = [fd for fd in report.findings
                           if fd not in opaque]
        for fd in opaque:
            if os.environ.get("RIGVERIF_SHOW_WITHHELD"):
                print("WITHHELD %s %s: %s" % (fd.rule, fd.instance,
                                              fd.message))
            for ob in report.obligations:
                if ob.get("ok") is False and ob["rule"] == fd.rule and \
                        ob["instance"] == fd.instance and \
                        ob["fact"] == fd.message:
                    ob["ok"] = None
        report.undecided(
            sorted(set(fd.rule for fd in opaque)),
            "%d comparison(s) in %s withheld: the value compared contains a "
            "part the engines do not interpret (%s); different normal "
            "forms are then no evidence of different values" % (
                len(opaque), ", ".join(sorted(set(
                    fd.instance for fd in opaque))),
                "; ".join(sorted(set(
                    _re.search(r"\b(?:opaque|call):[^ ,)]*",
                               fd.construct).group(0)
                    for fd in opaque))[:3])))
    for fd in report.findings:
        if fd.positive:
            keep.append(fd)
            continue
        key = finding_function(program, fd.node, fd.instance)
        if key is None:
            keep.append(fd)
            continue
        if key not in cache:
            try:
                cache[key] = rewrite_distance(program, key[0], key[1])
            except Exception:
                cache[key] = (None, None)
        dist, n_old = cache[key]
        if not heavily_rewritten(dist, n_old):
            keep.append(fd)
            continue
        held.setdefault(key, []).append(fd)
    if not held:
        return
    report.findings = keep
    for key, fds in sorted(held.items()):
        if os.environ.get("RIGVERIF_SHOW_WITHHELD"):
            for fd in fds:
                print("WITHHELD %s %s: %s" % (fd.rule, fd.instance,
                                              fd.message))
        for fd in fds:
            for ob in report.obligations:
                if ob.get("ok") is False and ob["rule"] == fd.rule and \
                        ob["instance"] == fd.instance and \
                        ob["fact"] == fd.message:
                    ob["ok"] = None
        dist, n_old = cache[key]
        report.undecided(
            sorted(set(fd.rule for fd in fds)),
            "%d report(s) about %s:%s withheld: %d of its statements are not "
            "those of the reference tree (limit %d; the reference function "
            "has %d) - in a function rewritten to that extent a rule that "
            "does not find what it expects has no verdict" % (
                len(fds), key[0], key[1], dist, REWRITE_LIMIT, n_old or 0))


def finish(report, program, explanation, not_decided, trusted=None,
           exhaustive=False, extra=None):
    """Check floors, split findings into known / new, write evidence, print the
    verdict lines and return the exit code."""
    floor_msgs = []
    waived = set()
    for rules, _ in report.undecided_rules:
        waived.update(rules)
    for rule, n in sorted(report.floors.items()):
        got = report.counts.get(rule, 0)
        if rule in waived:
            continue
        if got < n:
            floor_msgs.append(
                "rule %s evaluated %d instance(s), floor is %d - the rule no "
                "longer finds the constructs it was written for" %
                (rule, got, n))
    if floor_msgs and not report.findings and _is_reference(report.prop,
                                                            program):
        # on the tree the rules were confirmed on, a rule that does not find
        # its constructs means the checker is broken
        raise AnalysisError("; ".join(floor_msgs))
    for m in floor_msgs:
        # on changed code it means the construct was restructured beyond
        # what the rule reads: no verdict from that rule
        report.undecided([m.split()[1]], "floor not met: " + m)

    _withhold_rewritten(report, program)
    for mname in sorted(program.consulted):
        np_ = program.modules[mname].new_params
        if np_:
            report.undecided(
                ["new-options"],
                "%s: %s added since the reference tree - the property's "
                "rules read these functions with the new parameter(s) at "
                "their default(s), as every existing caller sees them; "
                "whether the property holds when the new option is used is "
                "not decided by them (the generic analyses read the whole "
                "text)" % (mname, "; ".join(
                    "%s(%s)" % (q, ", ".join(ps))
                    for q, ps in sorted(np_.items()))))

    known = load_known()
    known_keys = {}
    for k in known.get("known", []):
        if k["property"] == report.prop:
            known_keys[(k["property"], k["rule"], k["instance"],
                        k["construct"])] = k
    new, old = [], []
    for f in report.findings:
        (old if f.key() in known_keys else new).append(f)

    if report.quiet:
        report.new_findings = new
        return 1 if new else 0
    evdir = os.environ.get("RIGVERIF_EVDIR") or os.path.join(VERIF,
                                                             "evidence")
    os.makedirs(evdir, exist_ok=True)
    # remove stale violation files of this property
    for fn in os.listdir(evdir):
        if fn.startswith(report.prop + ".violation-"):
            os.unlink(os.path.join(evdir, fn))

    lines = []
    for f in old:
        lines.append("KNOWN-FINDING: property=%s %s [%s] %s: %s" % (
            f.prop, f.rule, f.instance, f.construct, f.message))
    for i, f in enumerate(new):
        path = os.path.join(evdir, "%s.violation-%d.json" % (report.prop, i))
        with open(path, "w") as fh:
            json.dump(f.as_dict(), fh, indent=1)
        lines.append("VIOLATION property=%s replay=%s" % (report.prop, path))
        lines.append("  %s  rule=%s  instance=%s  construct=%s\n    %s" % (
            f.where, f.rule, f.instance, f.construct, f.message))

    n_obl = len(report.obligations)
    n_ok = sum(1 for o in report.obligations if o["ok"])
    distinct = len(set((o["rule"], o["instance"], o["fact"])
                       for o in report.obligations))
    samples = []
    seen_rules = set()
    for o in report.obligations:
        if o["rule"] not in seen_rules or not o["ok"]:
            seen_rules.add(o["rule"])
            samples.append(o)
    samples = samples[:60]
    coverage = dict(
        explanation=explanation,
        not_decided=not_decided,
        obligations=n_obl,
        discharged=n_ok,
        evaluations=n_obl,
        distinct_nontrivial=distinct,
        rule="one evaluation = one rule instance (a rule applied to one "
             "construct of /repo's current source); distinct = distinct "
             "(rule, instance, derived fact) triples; every instance carries a "
             "non-trivial obligation (instances with nothing to show are not "
             "recorded)",
        rule_instances=dict(sorted(report.counts.items())),
        floors=dict(sorted(report.floors.items())),
        samples=samples,
        modules_consulted=sorted(program.consulted),
        source_digest=program.digest(),
        checker_cmd="./vcheck %s --tier %s" % (report.prop, report.tier),
        trusted_base=(trusted or []) + [
            "CPython ast parser", "the rigverif engines (this checker)"],
        exhaustive=bool(exhaustive),
        notes=report.notes,
        undecided=[dict(rules=r, reason=why)
                   for r, why in report.undecided_rules],
        known_findings_reported=len(old),
        selftests=[dict(variant=n, kind=k, as_expected=bool(fd))
                   for n, fd, k in report.selftests],
    )
    if extra:
        coverage.update(extra)
    ev = dict(
        property_id=report.prop,
        tier=report.tier,
        seed=int(os.environ.get("VERIF_SEED", "0") or 0),
        level="other",
        coverage=coverage,
        assumptions=report.assumptions,
        wall_s=round(time.time() - report.t0, 3),
        violations=len(new),
    )
    with open(os.path.join(evdir, report.prop + ".json"), "w") as fh:
        json.dump(ev, fh, indent=1, default=str)

    print("%s tier=%s: %d obligations over %d rules, %d discharged, "
          "%d violation(s), %d known finding(s)  [%.2fs]" % (
              report.prop, report.tier, n_obl, len(report.counts), n_ok,
              len(new), len(old), time.time() - report.t0))
    for rule in sorted(report.counts):
        print("   %-10s %3d instance(s)%s" % (
            rule, report.counts[rule],
            ("  (floor %d)" % report.floors[rule])
            if rule in report.floors else ""))
    for n, fd, k in report.selftests:
        if k == "metamorphic":
            word = "same verdict" if fd else "DIFFERENT VERDICT"
        else:
            word = ("fired" if fd else "SILENT") if k == "breaking" else \
                ("quiet" if fd else "FALSE-ALARM")
        print("   selftest %-40s %s" % (n, word))
    for rules, why in report.undecided_rules:
        print("UNDECIDED property=%s rules=%s the code is outside what "
              "these rules can analyse, no verdict from them: %s" % (
                  report.prop, ",".join(rules), why))
    for l in lines:
        print(l)
    sys.stdout.flush()
    return 1 if new else 0
