"""BITS engine.

(a) bit provenance: the abstract value of an integer expression built from
``& const``, ``|``/``+``/``^`` of disjoint pieces, ``<< const``, ``>> const``
is a constant part plus a list of pieces "bits [src_lo, src_lo+n) of source s
land at [dst_lo, dst_lo+n)" (n = None: unbounded above).  ``struct`` format
strings are parsed into (offset, size, code) slots.

(b) bit-parallel truth tables: an expression built only from ``& | ^ ~`` on
whole words is a Boolean function applied to every bit position
independently; ``truth_table`` extracts it over named input words.
"""
import ast
import itertools
import struct as _struct

from .core import AnalysisError, unparse


class BitsError(AnalysisError):
    pass


class Piece(object):
    __slots__ = ("src", "src_lo", "n", "dst_lo")

    def __init__(self, src, src_lo, n, dst_lo):
        self.src = src
        self.src_lo = src_lo
        self.n = n
        self.dst_lo = dst_lo

    def key(self):
        return (self.src, self.src_lo, self.n, self.dst_lo)

    def __repr__(self):
        hi = "" if self.n is None else str(self.src_lo + self.n - 1)
        dhi = "" if self.n is None else str(self.dst_lo + self.n - 1)
        return "%s[%s:%d]->[%s:%d]" % (self.src, hi, self.src_lo, dhi,
                                       self.dst_lo)


class Layout(object):
    def __init__(self, const=0, pieces=()):
        self.const = const
        self.pieces = list(pieces)

    def __repr__(self):
        parts = [repr(p) for p in sorted(self.pieces,
                                         key=lambda p: -p.dst_lo)]
        if self.const:
            parts.append(hex(self.const))
        return " | ".join(parts) or "0"

    def overlaps(self):
        """Pairs of pieces (or piece/const) that share destination bits."""
        out = []
        ps = self.pieces
        for i in range(len(ps)):
            for j in range(i + 1, len(ps)):
                if _ranges_overlap(ps[i], ps[j]):
                    out.append((ps[i], ps[j]))
            if self.const:
                lo = ps[i].dst_lo
                hi = None if ps[i].n is None else lo + ps[i].n
                c = self.const >> lo
                if hi is not None:
                    c &= (1 << (hi - lo)) - 1
                if c:
                    out.append((ps[i], "const"))
        return out

    def canonical(self, width=None):
        """Sorted tuple of (src, src_lo, n, dst_lo), clipping to ``width``
        destination bits when given."""
        out = []
        for p in self.pieces:
            n = p.n
            if width is not None:
                if p.dst_lo >= width:
                    continue
                avail = width - p.dst_lo
                n = avail if n is None else min(n, avail)
            out.append((p.src, p.src_lo, n, p.dst_lo))
        return tuple(sorted(out, key=lambda t: (t[3], t[0])))


def _ranges_overlap(a, b):
    alo, blo = a.dst_lo, b.dst_lo
    ahi = None if a.n is None else alo + a.n
    bhi = None if b.n is None else blo + b.n
    if ahi is not None and ahi <= blo:
        return False
    if bhi is not None and bhi <= alo:
        return False
    return True


def _runs(mask):
    """Contiguous runs of 1s in a non-negative mask: [(lo, n)]."""
    out = []
    i = 0
    while mask >> i:
        if (mask >> i) & 1:
            j = i
            while (mask >> j) & 1:
                j += 1
            out.append((i, j - i))
            i = j
        else:
            i += 1
    return out


def provenance(expr, const_of=None, name_of=None):
    """Layout of an integer expression.  ``const_of(expr)`` may return an int
    for expressions that fold to constants (else None); ``name_of(expr)``
    canonical source name for leaves (default: unparse)."""
    const_of = const_of or (lambda e: e.value if isinstance(e, ast.Constant)
                            and isinstance(e.value, int)
                            and not isinstance(e.value, bool) else None)
    name_of = name_of or unparse

    def go(e):
        c = const_of(e)
        if c is not None:
            return Layout(c, [])
        if isinstance(e, ast.BinOp):
            op = e.op
            if isinstance(op, (ast.BitOr, ast.Add, ast.BitXor)):
                a, b = go(e.left), go(e.right)
                if isinstance(op, ast.Add) and (a.const & b.const):
                    raise BitsError("constant parts overlap under +")
                return Layout(a.const | b.const if not isinstance(
                    op, ast.BitXor) else a.const ^ b.const,
                    a.pieces + b.pieces)
            if isinstance(op, ast.BitAnd):
                cl, cr = const_of(e.left), const_of(e.right)
                if cr is None and cl is not None:
                    inner, m = go(e.right), cl
                elif cr is not None:
                    inner, m = go(e.left), cr
                else:
                    return Layout(0, [Piece(name_of(e), 0, None, 0)])
                if m < 0:
                    # negative mask = clear some low bits, keep all above:
                    # ~m is the set of cleared bits
                    cleared = ~m
                    top = cleared.bit_length()
                    keep = [(lo, n) for lo, n in _runs(
                        ((1 << top) - 1) & m)] + [(top, None)]
                else:
                    keep = _runs(m)
                pieces = []
                for p in inner.pieces:
                    for lo, n in keep:
                        q = _clip(p, lo, n)
                        if q is not None:
                            pieces.append(q)
                return Layout(inner.const & m, pieces)
            if isinstance(op, (ast.LShift, ast.RShift)):
                k = const_of(e.right)
                if k is None or k < 0:
                    return Layout(0, [Piece(name_of(e), 0, None, 0)])
                inner = go(e.left)
                if isinstance(op, ast.LShift):
                    return Layout(inner.const << k,
                                  [Piece(p.src, p.src_lo, p.n, p.dst_lo + k)
                                   for p in inner.pieces])
                pieces = []
                for p in inner.pieces:
                    dst = p.dst_lo - k
                    if dst >= 0:
                        pieces.append(Piece(p.src, p.src_lo, p.n, dst))
                    else:
                        drop = -dst
                        if p.n is not None and p.n <= drop:
                            continue
                        pieces.append(Piece(
                            p.src, p.src_lo + drop,
                            None if p.n is None else p.n - drop, 0))
                return Layout(inner.const >> k, pieces)
            if isinstance(op, (ast.FloorDiv, ast.Mod)):
                # x // 2**k and x % 2**k of a non-negative x are a shift and
                # a mask (the sources here are unsigned struct fields)
                c = const_of(e.right)
                if c is not None and c > 0 and c & (c - 1) == 0:
                    k = c.bit_length() - 1
                    if isinstance(op, ast.FloorDiv):
                        eq_ = ast.BinOp(left=e.left, op=ast.RShift(),
                                        right=ast.Constant(value=k))
                    else:
                        eq_ = ast.BinOp(left=e.left, op=ast.BitAnd(),
                                        right=ast.Constant(value=c - 1))
                    return go(ast.copy_location(eq_, e))
            if isinstance(op, ast.Mult):
                for a, b in ((e.left, e.right), (e.right, e.left)):
                    c = const_of(b)
                    if c is not None and c > 0 and c & (c - 1) == 0:
                        k = c.bit_length() - 1
                        inner = go(a)
                        return Layout(inner.const << k, [
                            Piece(p.src, p.src_lo, p.n, p.dst_lo + k)
                            for p in inner.pieces])
        return Layout(0, [Piece(name_of(e), 0, None, 0)])

    return go(expr)


def _clip(p, lo, n):
    """Restrict piece p to destination bits [lo, lo+n)."""
    plo = p.dst_lo
    phi = None if p.n is None else plo + p.n
    hi = None if n is None else lo + n
    new_lo = max(plo, lo)
    if phi is None and hi is None:
        new_hi = None
    elif phi is None:
        new_hi = hi
    elif hi is None:
        new_hi = phi
    else:
        new_hi = min(phi, hi)
    if new_hi is not None and new_hi <= new_lo:
        return None
    return Piece(p.src, p.src_lo + (new_lo - plo),
                 None if new_hi is None else new_hi - new_lo, new_lo)


# ---------------------------------------------------------------------------
SIZES = {"x": 1, "c": 1, "b": 1, "B": 1, "?": 1, "h": 2, "H": 2, "i": 4,
         "I": 4, "l": 4, "L": 4, "q": 8, "Q": 8, "f": 4, "d": 8, "s": 1,
         "p": 1}


def parse_format(fmt):
    """'<2x8B' -> (endian, [(offset, size, code)]) for value-carrying slots
    (standard sizes; native '@' formats are rejected)."""
    if isinstance(fmt, bytes):
        fmt = fmt.decode()
    fmt = fmt.replace(" ", "")
    endian = "@"
    if fmt and fmt[0] in "<>!=@":
        endian = fmt[0]
        fmt = fmt[1:]
    if endian == "@":
        raise BitsError("native-alignment struct format %r" % fmt)
    slots = []
    off = 0
    i = 0
    while i < len(fmt):
        j = i
        while j < len(fmt) and fmt[j].isdigit():
            j += 1
        count = int(fmt[i:j]) if j > i else 1
        code = fmt[j]
        if code not in SIZES:
            raise BitsError("struct code %r" % code)
        if code == "s" or code == "p":
            slots.append((off, count, code))
            off += count
        elif code == "x":
            off += count
        else:
            for _ in range(count):
                slots.append((off, SIZES[code], code))
                off += SIZES[code]
        i = j + 1
    if off != _struct.calcsize(endian + fmt):
        raise BitsError("format size mismatch for %r" % fmt)
    return ("big" if endian in ">!" else "little"), slots, off


# ---------------------------------------------------------------------------
def truth_table(expr, inputs, env=None, width=32):
    """Truth table of a bit-parallel expression over the given input names:
    {(bit values of inputs...): output bit}.  Only & | ^ ~ of the inputs,
    names bound in ``env`` (to other bit-parallel ASTs) and the constants
    0 / all-ones are interpreted; anything else raises BitsError."""
    env = env or {}
    full = (1 << width) - 1
    table = {}
    for bits in itertools.product((0, 1), repeat=len(inputs)):
        val = dict(zip(inputs, bits))

        def ev(e, depth=0):
            if depth > 50:
                raise BitsError("recursion")
            if isinstance(e, ast.Constant) and isinstance(e.value, int):
                if e.value == 0:
                    return 0
                if e.value == full or e.value == -1:
                    return 1
                raise BitsError("constant %r is not bit-uniform" % e.value)
            nm = unparse(e) if isinstance(e, (ast.Name, ast.Attribute)) \
                else None
            if nm is not None:
                if nm in val:
                    return val[nm]
                if nm in env:
                    return ev(env[nm], depth + 1)
                raise BitsError("unknown word %s" % nm)
            if isinstance(e, ast.UnaryOp) and isinstance(e.op, ast.Invert):
                return 1 - ev(e.operand, depth + 1)
            if isinstance(e, ast.BinOp):
                a, b = ev(e.left, depth + 1), ev(e.right, depth + 1)
                if isinstance(e.op, ast.BitAnd):
                    return a & b
                if isinstance(e.op, ast.BitOr):
                    return a | b
                if isinstance(e.op, ast.BitXor):
                    return a ^ b
            raise BitsError("not bit-parallel: %s" % unparse(e))
        table[bits] = ev(expr)
    return table
