"""STALE: a loop reads a variable that this pass of the loop has not set.

    for chip, table in tables.items():
        if table:
            new_table = minimise(table)
        if new_table:                   # <- last chip's table, or NameError
            out[chip] = new_table

A variable all of whose bindings lie inside one loop has no value of its own
on a pass that reaches a read without going through a binding: the read sees
whatever the previous pass left (or raises NameError on the first).  Either
way the pass works on another pass's data.

``check`` reports a read R of v inside loop L when

  * every binding of v in the function lies inside L (parameters, globals,
    nonlocals and names also bound outside L are never reported: a value
    carried from pass to pass on purpose is initialised before the loop),
  * L's own target does not bind v, and
  * some path from the head of L to R goes through no binding of v and does
    not leave the pass (does not come back through the head), even after the
    branch edges contradicted by the conditions that hold at R are removed
    (``if c: v = ...`` followed by ``if c: use(v)`` is not reported).
"""
import ast

from .core import AnalysisError
from .cfg import cfg_of


def _scope_nodes(fn):
    """Nodes of fn's own scope (nested defs / lambdas / classes excluded;
    comprehensions included except for their targets)."""
    todo = list(fn.body)
    while todo:
        n = todo.pop()
        yield n
        for c in ast.iter_child_nodes(n):
            if isinstance(c, (ast.FunctionDef, ast.AsyncFunctionDef,
                              ast.ClassDef, ast.Lambda)):
                continue
            todo.append(c)


def _comp_targets(fn):
    out = set()
    for n in _scope_nodes(fn):
        if isinstance(n, ast.comprehension):
            for x in ast.walk(n.target):
                if isinstance(x, ast.Name):
                    out.add(id(x))
    return out


def _bindings(fn):
    """name -> [ast node of the binding construct]; names that must not be
    judged (parameters, global / nonlocal) map to None."""
    b = {}
    a = fn.args
    for x in a.posonlyargs + a.args + a.kwonlyargs + \
            [y for y in (a.vararg, a.kwarg) if y is not None]:
        b[x.arg] = None
    comp = _comp_targets(fn)
    comp_names = set()
    for n in _scope_nodes(fn):
        if isinstance(n, ast.comprehension):
            for x in ast.walk(n.target):
                if isinstance(x, ast.Name):
                    comp_names.add(x.id)
    for n in _scope_nodes(fn):
        if isinstance(n, (ast.Global, ast.Nonlocal)):
            for nm in n.names:
                b[nm] = None
        elif isinstance(n, ast.Name) and isinstance(n.ctx, (ast.Store,
                                                             ast.Del)):
            if id(n) in comp:
                continue
            if b.get(n.id, []) is not None:
                b.setdefault(n.id, []).append(n)
        elif isinstance(n, (ast.Import, ast.ImportFrom)):
            for al in n.names:
                nm = (al.asname or al.name).split(".")[0]
                if b.get(nm, []) is not None:
                    b.setdefault(nm, []).append(n)
        elif isinstance(n, ast.ExceptHandler) and n.name:
            if b.get(n.name, []) is not None:
                b.setdefault(n.name, []).append(n)
    for n in fn.body:
        pass
    # nested function / class statements bind their names too
    todo = list(fn.body)
    while todo:
        n = todo.pop()
        if isinstance(n, (ast.FunctionDef, ast.AsyncFunctionDef,
                          ast.ClassDef)):
            if b.get(n.name, []) is not None:
                b.setdefault(n.name, []).append(n)
            continue
        for c in ast.iter_child_nodes(n):
            if not isinstance(c, ast.Lambda):
                todo.append(c)
    # a name that is also a comprehension variable somewhere is left alone
    for nm in comp_names:
        b[nm] = None
    return b


def _loops_of(n, fn):
    out = []
    p = getattr(n, "_parent", None)
    while p is not None and p is not fn:
        if isinstance(p, (ast.For, ast.While)):
            out.append(p)
        p = getattr(p, "_parent", None)
    return out


def _candidate(fn):
    """Cheap filter: some name is stored inside a loop under a branch."""
    for n in ast.walk(fn):
        if isinstance(n, (ast.For, ast.While)):
            for x in ast.walk(n):
                if isinstance(x, (ast.If, ast.Try)) and x is not n:
                    return True
    return False


def _exhaustive_chain_ends(fn, cfg):
    """The 'no branch taken' edges of if / elif chains without else whose
    tests all compare one and the same expression with constants (``if d ==
    0: ... elif d == 1: ... elif d == 2: ...``): by convention such a chain
    lists every value the expression takes, so falling through it is not
    a path the code has."""
    out = []
    for n in ast.walk(fn):
        if not isinstance(n, ast.If):
            continue
        par = getattr(n, "_parent", None)
        if isinstance(par, ast.If) and par.orelse == [n]:
            continue            # not the top of a chain
        chain_, cur = [n], n
        while len(cur.orelse) == 1 and isinstance(cur.orelse[0], ast.If):
            cur = cur.orelse[0]
            chain_.append(cur)
        if len(chain_) < 2 or cur.orelse:
            continue
        subj = set()
        ok = True
        for i_ in chain_:
            t = i_.test
            while isinstance(t, ast.UnaryOp) and isinstance(t.op, ast.Not) \
                    and isinstance(t.operand, ast.UnaryOp) and \
                    isinstance(t.operand.op, ast.Not):
                t = t.operand.operand
            if isinstance(t, ast.Compare) and len(t.ops) == 1 and \
                    isinstance(t.ops[0], (ast.Eq, ast.Is, ast.In)) and \
                    isinstance(t.left, (ast.Name, ast.Attribute)):
                subj.add(ast.dump(t.left))
            elif isinstance(t, ast.Compare) and len(t.ops) == 1 and \
                    isinstance(t.ops[0], (ast.Eq, ast.Is)) and \
                    isinstance(t.left, ast.Constant) and \
                    isinstance(t.comparators[0], (ast.Name, ast.Attribute)):
                subj.add(ast.dump(t.comparators[0]))    # 0 == d
            else:
                ok = False
        if not ok or len(subj) != 1:
            continue
        for a in cfg.nodes:
            if a.kind == "assume" and a.ast is cur.test and not a.polarity:
                out.append(a)
    return out


def check_fn(fn):
    """[(read Name node, loop node, text)] for one function."""
    if not _candidate(fn):
        return []
    binds = _bindings(fn)
    cfg = cfg_of(fn)
    chain_ends = _exhaustive_chain_ends(fn, cfg)
    comp = _comp_targets(fn)
    out = []
    T = None
    reads = {}
    for n in _scope_nodes(fn):
        if isinstance(n, ast.Name) and isinstance(n.ctx, ast.Load) and \
                binds.get(n.id):
            reads.setdefault(n.id, []).append(n)
    for v, sites in sorted(binds.items()):
        if not sites or v not in reads:
            continue
        # the loop every binding lies in
        common = None
        for s in sites:
            ls = _loops_of(s, fn)
            if isinstance(s, (ast.For,)):
                pass
            common = ls if common is None else [x for x in common
                                                if x in ls]
        if not common:
            continue
        L = common[0]           # the innermost loop holding all of them
        if isinstance(L, ast.For) and any(
                isinstance(x, ast.Name) and x.id == v
                for x in ast.walk(L.target)):
            continue
        try:
            H = cfg.loop_head[id(L)]
            dnodes = [cfg.node_containing(s) for s in sites]
        except (AnalysisError, KeyError):
            continue
        if any(d is None for d in dnodes) or H in dnodes:
            continue
        for r in reads[v]:
            if L not in _loops_of(r, fn):
                continue
            try:
                rn = cfg.node_containing(r)
            except AnalysisError:
                continue
            if rn is None:
                continue
            # (a statement that both reads and binds v reads first - except
            # a for statement's own target, handled above)
            avoid = [d for d in dnodes if d is not rn] + [H] + chain_ends
            if rn in dnodes and not _reads_before_binding(r, sites):
                continue
            if not cfg.reaches(H, rn, avoid=avoid):
                continue
            # path-sensitive: remove the branch edges the conditions at the
            # read contradict
            try:
                if T is None:
                    from .terms import Terms
                    T = Terms(fn)
                facts = [(t, p) for t, p in T.all_facts(rn)
                         if t[0] not in ("and", "or")]
                Hh = T.under(*facts) if facts else T
                dead = [T.cfg.nodes[i] for i in Hh.dead]
                tr = T.cfg.node_containing(r)
                tH = T.cfg.loop_head[id(L)]
                tav = [T.cfg.node_containing(s) for s in sites]
                tav = [d for d in tav if d is not tr] + [tH] + dead + \
                    _exhaustive_chain_ends(fn, T.cfg)
                if not T.cfg.reaches(tH, tr, avoid=tav):
                    continue
            except (AnalysisError, KeyError, RecursionError):
                continue        # not decided: say nothing
            out.append((r, L, "%s is read at line %d on a pass of the loop "
                        "at line %d that has not set it (it is only ever "
                        "set inside that loop): the value left by the "
                        "previous pass is used - or NameError on the first"
                        % (v, r.lineno, L.lineno)))
            break
    return out


def _reads_before_binding(r, sites):
    """In the statement holding both: is the read in the value (evaluated
    before the target is bound)?"""
    p = r
    while p is not None and not isinstance(p, ast.stmt):
        p = getattr(p, "_parent", None)
    if isinstance(p, ast.AugAssign):
        return True
    if isinstance(p, ast.Assign):
        return any(x is r for x in ast.walk(p.value))
    return False


def check(program, modules):
    out, n_fn = [], 0
    for mname in modules:
        m = program.full(mname) if hasattr(program, "full") else \
            program.modules.get(mname)
        if m is None:
            continue
        program.module(mname)
        for q, fn in sorted(m.defs.items()):
            if not isinstance(fn, ast.FunctionDef) or \
                    getattr(fn, "_virtual", False):
                continue
            n_fn += 1
            try:
                res = check_fn(fn)
            except (AnalysisError, RecursionError):
                continue
            for r, L, text in res:
                out.append((mname, "%s:%s" % (mname, q), r, text))
    return out, n_fn


def rule(program, rep, rule_id, modules):
    res, n_fn = check(program, modules)
    for mname, inst, r, text in res:
        rep.bad(rule_id, inst, "stale read of %s" % r.id, text, r,
                positive=True)
    rep.ok(rule_id, ",".join(sorted(modules)) or "-",
           "%d function(s): no loop reads a variable of its own that the "
           "current pass may not have set" % n_fn)
