"""DIVIS: a small must-analysis "is a multiple of k" over one function.

Abstract state: the set of expression keys (variable chains and ``len(x)``
texts) known to be multiples of ``k``.  Forward over the CFG, intersection at
merge points, optimistic initialisation (classic must-dataflow), so a fact
holds at a node only if it holds on every path to it, loops included.

  guards      assume(E % k) false / (E % k == 0) true   =>  E divisible
  constants   c with c % k == 0
  x & c       c % k == 0 (e.g. ``x & ~3`` for k = 4)
  a + b, a - b, min(a, b), max(a, b)   both divisible
  a * b       one divisible
  x = e       x divisible iff e is; any other definition removes x
"""
import ast

from .core import unparse
from .cfg import cfg_of
from .dataflow import chain, call_name, Flow


def _key(e):
    c = chain(e)
    if c is not None:
        return c
    if isinstance(e, ast.Call) and isinstance(e.func, ast.Name) and \
            e.func.id == "len" and len(e.args) == 1 and chain(e.args[0]):
        return "len(%s)" % chain(e.args[0])
    return None


class Divis(object):
    def __init__(self, fn, k, const_of=None):
        self.fn = fn
        self.k = k
        self.cfg = cfg_of(fn)
        self.flow = Flow(fn)
        self.const_of = const_of or (lambda e: e.value if isinstance(
            e, ast.Constant) and isinstance(e.value, int) and
            not isinstance(e.value, bool) else None)
        self._run()

    def div(self, e, state):
        k = self.k
        c = self.const_of(e)
        if c is not None:
            return c % k == 0
        key = _key(e)
        if key is not None:
            return key in state
        if isinstance(e, ast.UnaryOp) and isinstance(e.op, ast.Invert):
            return False
        if isinstance(e, ast.BinOp):
            a, b = e.left, e.right
            if isinstance(e.op, (ast.Add, ast.Sub)):
                return self.div(a, state) and self.div(b, state)
            if isinstance(e.op, ast.Mult):
                return self.div(a, state) or self.div(b, state)
            if isinstance(e.op, ast.BitAnd):
                for m in (a, b):
                    cm = self._mask(m)
                    if cm is not None and cm % k == 0:
                        return True
                return False
            if isinstance(e.op, ast.LShift):
                cb = self.const_of(b)
                return self.div(a, state) or (
                    cb is not None and (1 << cb) % k == 0)
        if isinstance(e, ast.Call) and isinstance(e.func, ast.Name) and \
                e.func.id in ("min", "max") and e.args:
            args = e.args
            if len(args) == 1 and isinstance(args[0], (ast.Tuple, ast.List)):
                args = args[0].elts
            return all(self.div(a, state) for a in args)
        if isinstance(e, ast.IfExp):
            return self.div(e.body, state) and self.div(e.orelse, state)
        return False

    def _mask(self, e):
        c = self.const_of(e)
        if c is not None:
            return c
        if isinstance(e, ast.UnaryOp) and isinstance(e.op, ast.Invert):
            c = self.const_of(e.operand)
            if c is not None:
                return ~c
        return None

    def residue_of(self, e):
        """x when ``e`` is the residue of x modulo k: ``x % k`` or, k being a
        power of two, ``x & (k - 1)`` (either operand order); else None."""
        k = self.k
        if not isinstance(e, ast.BinOp):
            return None
        if isinstance(e.op, ast.Mod) and self.const_of(e.right) == k:
            return e.left
        if isinstance(e.op, ast.BitAnd) and k & (k - 1) == 0:
            if self.const_of(e.right) == k - 1:
                return e.left
            if self.const_of(e.left) == k - 1:
                return e.right
        return None

    def _guard(self, n, state):
        e, pol = n.ast, n.polarity
        target = None
        if self.residue_of(e) is not None and not pol:
            target = self.residue_of(e)
        if isinstance(e, ast.Compare) and len(e.ops) == 1:
            l, r = e.left, e.comparators[0]
            if self.residue_of(l) is None and self.residue_of(r) is not None:
                l, r = r, l
            if self.residue_of(l) is not None and self.const_of(r) == 0:
                if (isinstance(e.ops[0], ast.Eq) and pol) or \
                        (isinstance(e.ops[0], ast.NotEq) and not pol):
                    target = self.residue_of(l)
        if target is not None and _key(target) is not None:
            return state | {_key(target)}
        return state

    def _transfer(self, n, state):
        if n.kind == "assume":
            return self._guard(n, state)
        defs = [d for d in self.flow.node_defs.get(n.id, [])
                if d.mode != "param"]
        if not defs:
            return state
        out = set(state)
        adds = set()
        for d in defs:
            val = None
            if d.mode == "assign" and d.value is not None:
                val = self.div(d.value, state)
            elif d.mode == "aug":
                s = d.value
                fake = ast.BinOp(left=s.target, op=s.op, right=s.value)
                val = self.div(fake, state)
            # remove everything that mentions the variable
            for key in list(out):
                if key == d.var or key.startswith(d.var + ".") or \
                        key == "len(%s)" % d.var or \
                        (d.var == "self.*" and key.startswith("self.")):
                    out.discard(key)
            if val:
                adds.add(d.var)
        return frozenset(out | adds)

    def _run(self):
        cfg = self.cfg
        TOP = None
        inn = {n.id: TOP for n in cfg.nodes}
        out = {n.id: TOP for n in cfg.nodes}
        inn[cfg.entry.id] = frozenset()
        work = [cfg.entry]
        while work:
            n = work.pop(0)
            if n is not cfg.entry:
                acc = TOP
                for p in n.pred:
                    o = out[p.id]
                    if o is TOP:
                        continue
                    acc = o if acc is TOP else (acc & o)
                if acc is TOP:
                    continue
                inn[n.id] = acc
            new = self._transfer(n, frozenset(inn[n.id]))
            if out[n.id] is TOP or new != out[n.id]:
                out[n.id] = new
                for s in n.succ:
                    if s not in work:
                        work.append(s)
        self.state_in = inn
        self.state_out = out

    def holds(self, expr, node):
        st = self.state_in.get(node.id)
        if st is None:
            return True       # unreachable
        return self.div(expr, st)
